#!/usr/bin/env python3
"""harnesslist.py : rewrites the list of registered runs per property in DESIGN.md (between the
harnesslist markers) from props.py."""
import json, os, re, sys
ROOT = os.path.dirname(os.path.abspath(__file__))
sys.path.insert(0, ROOT)
from props import PROPS
lines = []
for pid in sorted(k for k in PROPS if k.startswith('C')):
    seen, items = set(), []
    for r in PROPS[pid]['runs']:
        h = r['harness']
        if r.get('params'):
            h += '(' + ','.join(f'{k}={v}' for k, v in r['params'].items()) + ')'
        if r.get('thorough_only'):
            h += ' [thorough only]'
        if h not in seen:
            seen.add(h); items.append('`' + h + '`')
    lines.append(f'* **{pid}**: ' + ', '.join(items))
p = f'{ROOT}/DESIGN.md'
s = open(p).read()
b, e = '<!-- harnesslist:begin -->\n', '<!-- harnesslist:end -->'
s = s[:s.index(b) + len(b)] + '\n'.join(lines) + '\n' + s[s.index(e):]
open(p, 'w').write(s)
print(len(lines), 'properties listed')
