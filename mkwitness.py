#!/usr/bin/env python3
"""mkwitness.py <id> <property> <harness> <label> k=v ... : regenerates known/<id>.json by running the
harness with the class exclusion switched off (the params given) and taking the first violation with that label."""
import json, subprocess, sys, os, tempfile
sys.path.insert(0, os.path.dirname(os.path.abspath(__file__)))
import importlib.util
spec = importlib.util.spec_from_loader("chk", loader=None)
src = open(os.path.join(os.path.dirname(os.path.abspath(__file__)), "check")).read()
chk = {"__file__": os.path.join(os.path.dirname(os.path.abspath(__file__)), "check"), "__name__": "chk"}
exec(compile(src.replace('if __name__ == "__main__":\n    main()', ''), "check", "exec"), chk)
fid, prop, harness, label = sys.argv[1:5]
params = {}
prefer = None
for kv in sys.argv[5:]:
    k, v = kv.split("=")
    if k == "prefer":
        prefer = v
        continue
    params[k] = int(v)
binp = chk["build_gosym"]()
wd = tempfile.mkdtemp()
r = chk["run_gosym"](binp, "snaps", harness, params, wd, ["-max-violations", "200"])
vs = [v for v in r["violations"] if v["label"] == label]
if prefer:
    pv = [v for v in vs if prefer in json.dumps(v["inputs"])]
    vs = pv or vs
assert vs, "no violation with label " + label
v = vs[0]
w = {"property": prop, "harness": harness, "pkg": "snaps", "label": label, "inputs": v["inputs"], "env": v.get("env") or {}, "params": params}
json.dump(w, open(os.path.join(chk["ROOT"], "known", fid + ".json"), "w"), indent=1)
print("witness", fid, json.dumps(v["inputs"])[:300])
