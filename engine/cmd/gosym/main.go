// Command gosym runs one harness symbolically and writes the result as JSON.
package main

import (
	"encoding/json"
	"flag"
	"fmt"
	"os"
	"path/filepath"
	"runtime/debug"
	"runtime/pprof"
	"strconv"
	"strings"
	"time"

	"gosym/interp"
)

type overlayFlag []string

func (o *overlayFlag) String() string     { return strings.Join(*o, ",") }
func (o *overlayFlag) Set(s string) error { *o = append(*o, s); return nil }

type multiFlag []string

func (o *multiFlag) String() string     { return strings.Join(*o, ",") }
func (o *multiFlag) Set(s string) error { *o = append(*o, s); return nil }

type output struct {
	Harness      string                 `json:"harness"`
	Params       map[string]int         `json:"params"`
	Paths        int                    `json:"paths"`
	Assumed      int                    `json:"assumed_away"`
	Decisions    int                    `json:"decisions"`
	Forced       int                    `json:"forced"`
	Asserts      int                    `json:"asserts"`
	Violations   []interp.Violation     `json:"violations"`
	Inconclusive []string               `json:"inconclusive"`
	Samples      []interp.Sample        `json:"samples"`
	Queries      map[string]int         `json:"queries"`
	SolverTimeS  float64                `json:"solver_time_s"`
	WallS        float64                `json:"wall_s"`
	LoadS        float64                `json:"load_s"`
	Functions    []string               `json:"functions_encoded"`
	Externs      []string               `json:"intrinsics_and_stubs_used"`
	Natives      []string               `json:"native_fastpath_used"`
	Inits        []string               `json:"package_inits_run"`
	Reached      map[string]int         `json:"reach_markers"`
	MapRanges    int                    `json:"map_ranges_over_multi_entry_maps"`
	MaxTrace     int                    `json:"max_decision_vector"`
	Steps        int64                  `json:"instructions_executed"`
	Solver       string                 `json:"solver"`
	Extra        map[string]interface{} `json:"extra,omitempty"`
}

func main() {
	var ov overlayFlag
	var params, pats multiFlag
	repo := flag.String("repo", "/repo", "repository under test")
	pkg := flag.String("pkg", "github.com/gkampitakis/go-snaps/snaps", "package path of the harness")
	harness := flag.String("harness", "", "harness function")
	workers := flag.Int("workers", 16, "parallel workers")
	out := flag.String("out", "", "result file (default stdout)")
	solver := flag.String("solver", "z3", "z3 | z3-new | cvc5")
	maxPaths := flag.Int("max-paths", 0, "path budget (0 = none)")
	maxViol := flag.Int("max-violations", 25, "stop after this many violations")
	maxSteps := flag.Int("max-steps", 0, "per-path instruction budget")
	timeout := flag.Duration("timeout", 0, "wall-clock budget")
	falseTwin := flag.Bool("false-twin", false, "vacuity twin: every Assert becomes Assert(false)")
	trace := flag.Bool("trace", false, "trace instructions")
	verbose := flag.Bool("v", false, "verbose")
	tags := flag.String("tags", "verif", "build tags")
	cpuprofile := flag.String("cpuprofile", "", "write a CPU profile")
	sampleEvery := flag.Int("sample-every", 0, "record every n-th path as an evidence sample")
	flag.Var(&ov, "overlay", "virtual=real file mapping (repeatable)")
	flag.Var(&params, "param", "name=int harness parameter (repeatable)")
	flag.Var(&pats, "pattern", "package pattern to load (repeatable)")
	flag.Parse()
	// the loaded SSA of the repository and its dependencies is a large, long-lived heap;
	// collect rarely (bounded by a soft memory limit)
	debug.SetGCPercent(800)
	debug.SetMemoryLimit(10 << 30)

	if *cpuprofile != "" {
		f, _ := os.Create(*cpuprofile)
		pprof.StartCPUProfile(f)
		defer pprof.StopCPUProfile()
	}
	overlay := map[string][]byte{}
	for _, o := range ov {
		kv := strings.SplitN(o, "=", 2)
		if len(kv) != 2 {
			fatal("bad -overlay %q", o)
		}
		b, err := os.ReadFile(kv[1])
		if err != nil {
			fatal("%v", err)
		}
		overlay[kv[0]] = b
	}
	pm := map[string]int{}
	for _, p := range params {
		kv := strings.SplitN(p, "=", 2)
		n, err := strconv.Atoi(kv[1])
		if err != nil {
			fatal("bad -param %q", p)
		}
		pm[kv[0]] = n
	}
	if len(pats) == 0 {
		pats = []string{"./snaps", "./match", "./internal/...", "runtime"}
	}
	t0 := time.Now()
	prog, err := interp.Load(interp.LoadConfig{RepoDir: *repo, Overlay: overlay, Patterns: pats, Tags: *tags})
	if err != nil {
		fatal("load: %v", err)
	}
	loadS := time.Since(t0).Seconds()
	opts := interp.Options{
		Workers: *workers, MaxPaths: *maxPaths, MaxViol: *maxViol, MaxSteps: *maxSteps,
		SolverKind: *solver, Params: pm, SampleEvery: *sampleEvery, Trace: *trace, FalseTwin: *falseTwin, Verbose: *verbose,
	}
	if *timeout > 0 {
		opts.Deadline = time.Now().Add(*timeout)
	}
	eng, err := interp.NewEngine(prog, *pkg, *harness, opts)
	if err != nil {
		fatal("%v", err)
	}
	res := eng.Run()
	o := output{
		Harness: *harness, Params: pm, Paths: res.Paths, Assumed: res.Assumed, Decisions: res.Decisions,
		Forced: res.Forced, Asserts: res.Asserts, Violations: res.Violations, Inconclusive: res.Inconclusive,
		Samples: res.Samples, Queries: map[string]int{"sat": res.Sat, "unsat": res.Unsat, "unknown": res.Unknown, "total": res.Queries,
			"valueset_sat": res.DomSat, "valueset_unsat": res.DomUnsat, "model_cache_sat": res.CacheSat, "fast_answers_cross_checked_with_z3": res.CrossChecked},
		SolverTimeS: res.SolverTime.Seconds(), WallS: res.Wall.Seconds(), LoadS: loadS,
		Functions: eng.FunctionsEncoded(), Externs: eng.ExternsUsed(), Natives: eng.NativesUsed(), Inits: eng.InitsRun(),
		Reached: eng.Reached(), MapRanges: res.MapRanges, MaxTrace: res.MaxTrace, Steps: res.Steps, Solver: *solver,
	}
	if o.Violations == nil {
		o.Violations = []interp.Violation{}
	}
	if o.Inconclusive == nil {
		o.Inconclusive = []string{}
	}
	b, _ := json.MarshalIndent(o, "", " ")
	if *out != "" {
		os.MkdirAll(filepath.Dir(*out), 0o755)
		if err := os.WriteFile(*out, b, 0o644); err != nil {
			fatal("%v", err)
		}
	} else {
		os.Stdout.Write(b)
		fmt.Println()
	}
	fmt.Fprintf(os.Stderr, "gosym %s: paths=%d assumed=%d violations=%d inconclusive=%d queries=%d wall=%.1fs (load %.1fs)\n",
		*harness, res.Paths, res.Assumed, len(res.Violations), len(res.Inconclusive), res.Queries, res.Wall.Seconds(), loadS)
	pprof.StopCPUProfile()
	if len(res.Inconclusive) > 0 {
		for _, s := range res.Inconclusive {
			fmt.Fprintln(os.Stderr, "  inconclusive:", s)
		}
		os.Exit(2)
	}
	if len(res.Violations) > 0 {
		os.Exit(1)
	}
}

func fatal(f string, a ...interface{}) {
	fmt.Fprintf(os.Stderr, "gosym: "+f+"\n", a...)
	os.Exit(3)
}
