package interp

// reflect.DeepEqual over interpreter values (class B model: the documented
// semantics, walked over the interpreter's own representation; symbolic leaves
// are decided on the current path like any other comparison).

import (
	hostjson "encoding/json"
	"go/types"
	"sort"
)

func init() {
	externals["reflect.DeepEqual"] = func(fr *frame, args []value) value {
		x, _ := args[0].(iface)
		y, _ := args[1].(iface)
		if x.t == nil || y.t == nil {
			return x.t == nil && y.t == nil
		}
		if !types.Identical(x.t, y.t) {
			return false
		}
		return deepEq(fr.i, x.t, x.v, y.v, 0)
	}
}

func deepEq(i *interpreter, t types.Type, x, y value, depth int) bool {
	if depth > 200 {
		i.abort("reflect.DeepEqual: nesting deeper than 200 (cyclic value?)")
	}
	switch u := t.Underlying().(type) {
	case *types.Interface:
		xi, _ := x.(iface)
		yi, _ := y.(iface)
		if xi.t == nil || yi.t == nil {
			return xi.t == nil && yi.t == nil
		}
		if !types.Identical(xi.t, yi.t) {
			return false
		}
		return deepEq(i, xi.t, xi.v, yi.v, depth+1)
	case *types.Slice:
		xs, _ := x.([]value)
		ys, _ := y.([]value)
		if (xs == nil) != (ys == nil) || len(xs) != len(ys) {
			return false
		}
		for k := range xs {
			if !deepEq(i, u.Elem(), xs[k], ys[k], depth+1) {
				return false
			}
		}
		return true
	case *types.Array:
		xs, ys := x.(array), y.(array)
		for k := range xs {
			if !deepEq(i, u.Elem(), xs[k], ys[k], depth+1) {
				return false
			}
		}
		return true
	case *types.Struct:
		xs, ys := x.(structure), y.(structure)
		for k := 0; k < u.NumFields(); k++ {
			if !deepEq(i, u.Field(k).Type(), xs[k], ys[k], depth+1) {
				return false
			}
		}
		return true
	case *types.Map:
		xm, _ := x.(*omap)
		ym, _ := y.(*omap)
		if (xm == nil) != (ym == nil) {
			return false
		}
		if xm == nil || xm == ym {
			return true
		}
		if xm.len() != ym.len() {
			return false
		}
		for k := range xm.keys {
			if xm.dead[k] {
				continue
			}
			yv, ok := ym.lookup(i, xm.keys[k])
			if !ok || !deepEq(i, u.Elem(), xm.vals[k], yv, depth+1) {
				return false
			}
		}
		return true
	case *types.Pointer:
		xp, _ := x.(*value)
		yp, _ := y.(*value)
		if xp == yp {
			return true
		}
		if xp == nil || yp == nil {
			return false
		}
		return deepEq(i, u.Elem(), *xp, *yp, depth+1)
	case *types.Signature:
		// functions are deeply equal only when both are nil
		return x == nil && y == nil
	}
	return equals(i, t, x, y)
}

// json.Unmarshal(data, &x) with x of type any and concrete data: decoded by the host library and
// rebuilt from the interpreter's values (map[string]any, []any, float64, string, bool, nil).
// Anything else (symbolic bytes, typed targets) stays unmodelled: inconclusive.
func init() {
	externals["encoding/json.Unmarshal"] = func(fr *frame, args []value) value {
		i := fr.i
		data, _ := args[0].([]value)
		buf := make([]byte, len(data))
		for k, b := range data {
			c, ok := b.(byte)
			if !ok {
				i.abort("call into stubbed package without intrinsic: encoding/json.Unmarshal (symbolic bytes)")
			}
			buf[k] = c
		}
		target, _ := args[1].(iface)
		pt, isPtr := target.t.(*types.Pointer)
		if !isPtr {
			return i.mkError("json: Unmarshal(non-pointer)")
		}
		it, isIface := pt.Elem().Underlying().(*types.Interface)
		if !isIface || it.NumMethods() != 0 {
			i.abort("call into stubbed package without intrinsic: encoding/json.Unmarshal (target %v)", pt.Elem())
		}
		var host any
		if err := hostjson.Unmarshal(buf, &host); err != nil {
			return i.mkError(err.Error())
		}
		*(target.v.(*value)) = fromHostJSON(i, host)
		return nilErr()
	}
}

var emptyIfaceT = types.NewInterfaceType(nil, nil).Complete()

func fromHostJSON(i *interpreter, h any) value {
	switch h := h.(type) {
	case nil:
		return iface{}
	case bool:
		return iface{t: types.Typ[types.Bool], v: h}
	case float64:
		return iface{t: types.Typ[types.Float64], v: h}
	case string:
		return iface{t: types.Typ[types.String], v: h}
	case []any:
		out := make([]value, len(h))
		for k := range h {
			out[k] = fromHostJSON(i, h[k])
		}
		return iface{t: types.NewSlice(emptyIfaceT), v: out}
	case map[string]any:
		m := makeMap(types.Typ[types.String], 0).(*omap)
		keys := make([]string, 0, len(h))
		for k := range h {
			keys = append(keys, k)
		}
		sort.Strings(keys)
		for _, k := range keys {
			m.insert(i, k, fromHostJSON(i, h[k]))
		}
		return iface{t: types.NewMap(types.Typ[types.String], emptyIfaceT), v: m}
	}
	i.abort("json.Unmarshal model: unexpected host value %T", h)
	return nil
}
