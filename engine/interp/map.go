package interp

// omap is the interpreter's map: insertion-ordered (so that re-execution of a
// decision prefix is deterministic), with key equality decided on the current
// path when keys are symbolic.

import (
	"go/types"
)

type omap struct {
	keyType types.Type
	keys    []value
	vals    []value
	dead    []bool
	idx     map[value]int // index of concrete basic keys
	nsym    int           // number of live keys that cannot be indexed
	n       int           // live entries
	ranged  bool
}

func makeMap(kt types.Type, reserve int64) value {
	return &omap{keyType: kt, idx: map[value]int{}}
}

// indexable reports whether k can be used as a Go map key with the right
// equivalence (concrete basic values and pointers).
func indexable(k value) bool {
	switch k.(type) {
	case bool, int, int8, int16, int32, int64, uint, uint8, uint16, uint32, uint64, uintptr,
		float32, float64, complex64, complex128, string, *value, chan value:
		return true
	}
	return false
}

func (m *omap) find(i *interpreter, k value) int {
	if m == nil {
		return -1
	}
	if indexable(k) {
		if p, ok := m.idx[k]; ok {
			return p
		}
		if m.nsym == 0 {
			return -1
		}
		for p := range m.keys {
			if m.dead[p] || indexable(m.keys[p]) {
				continue
			}
			if equals(i, m.keyType, k, m.keys[p]) {
				return p
			}
		}
		return -1
	}
	for p := range m.keys {
		if m.dead[p] {
			continue
		}
		if equals(i, m.keyType, k, m.keys[p]) {
			return p
		}
	}
	return -1
}

func (m *omap) lookup(i *interpreter, k value) (value, bool) {
	p := m.find(i, k)
	if p < 0 {
		return nil, false
	}
	return m.vals[p], true
}

func (m *omap) insert(i *interpreter, k, v value) {
	if m == nil {
		panic(targetPanic{"assignment to entry in nil map"})
	}
	if p := m.find(i, k); p >= 0 {
		m.vals[p] = v
		return
	}
	m.keys = append(m.keys, k)
	m.vals = append(m.vals, v)
	m.dead = append(m.dead, false)
	if indexable(k) {
		m.idx[k] = len(m.keys) - 1
	} else {
		m.nsym++
	}
	m.n++
}

func (m *omap) delete(i *interpreter, k value) {
	p := m.find(i, k)
	if p < 0 {
		return
	}
	m.dead[p] = true
	if indexable(m.keys[p]) {
		delete(m.idx, m.keys[p])
	} else {
		m.nsym--
	}
	m.n--
}

func (m *omap) clear() {
	if m == nil {
		return
	}
	m.keys, m.vals, m.dead = nil, nil, nil
	m.idx = map[value]int{}
	m.nsym, m.n = 0, 0
}

func (m *omap) len() int {
	if m == nil {
		return 0
	}
	return m.n
}
