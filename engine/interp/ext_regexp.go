package interp

// Symbolic matching of a concrete regular expression against a string with
// symbolic bytes: the pattern is compiled by the host's regexp/syntax into
// its NFA program, and the Thompson simulation is run with a Bool term per
// program counter ("reachable at this position") instead of a bit. The result
// is one Bool term over the subject's bytes, exact for subjects whose symbolic
// bytes are ASCII (checked, not assumed).

import (
	"reflect"
	"regexp"
	"regexp/syntax"
	"strings"
)

func (i *interpreter) regexpNFA(pattern string, subject []value) (*Term, bool) {
	re, err := syntax.Parse(pattern, syntax.Perl)
	if err != nil {
		return nil, false
	}
	prog, err := syntax.Compile(re.Simplify())
	if err != nil {
		return nil, false
	}
	tb := i.tb
	n := len(subject)
	// subject bytes as terms; symbolic bytes must be ASCII on this path
	bs := make([]*Term, n)
	for k, b := range subject {
		switch b := b.(type) {
		case byte:
			if b >= 0x80 {
				i.abort("regexp model: non-ASCII subject byte with a symbolic subject")
			}
			bs[k] = tb.BV(8, uint64(b))
		case *Term:
			if !i.decide(tb.Bin(opUlt, b, tb.BV(8, 0x80))) {
				i.abort("regexp model: symbolic subject byte may be non-ASCII")
			}
			bs[k] = b
		}
	}
	class := func(pred func(c byte) bool, t *Term) *Term {
		res := tb.ff
		c := 0
		for c < 128 {
			if !pred(byte(c)) {
				c++
				continue
			}
			lo := c
			for c < 128 && pred(byte(c)) {
				c++
			}
			hi := c - 1
			if lo == hi {
				res = tb.Or(res, tb.Eq(t, tb.BV(8, uint64(lo))))
			} else {
				res = tb.Or(res, tb.And(tb.Bin(opUle, tb.BV(8, uint64(lo)), t), tb.Bin(opUle, t, tb.BV(8, uint64(hi)))))
			}
		}
		return res
	}
	isWord := func(c byte) bool {
		return c >= 'a' && c <= 'z' || c >= 'A' && c <= 'Z' || c >= '0' && c <= '9' || c == '_'
	}
	wordAt := func(pos int) *Term {
		if pos < 0 || pos >= n {
			return tb.ff
		}
		return class(isWord, bs[pos])
	}
	nlAt := func(pos int) *Term { return tb.Eq(bs[pos], tb.BV(8, '\n')) }
	empty := func(op syntax.EmptyOp, pos int) *Term {
		c := tb.tt
		if op&syntax.EmptyBeginText != 0 && pos != 0 {
			c = tb.ff
		}
		if op&syntax.EmptyEndText != 0 && pos != n {
			c = tb.ff
		}
		if op&syntax.EmptyBeginLine != 0 && pos != 0 {
			c = tb.And(c, nlAt(pos-1))
		}
		if op&syntax.EmptyEndLine != 0 && pos != n {
			c = tb.And(c, nlAt(pos))
		}
		if op&(syntax.EmptyWordBoundary|syntax.EmptyNoWordBoundary) != 0 {
			a, b := wordAt(pos-1), wordAt(pos)
			diff := tb.Or(tb.And(a, tb.Not(b)), tb.And(tb.Not(a), b))
			if op&syntax.EmptyWordBoundary != 0 {
				c = tb.And(c, diff)
			}
			if op&syntax.EmptyNoWordBoundary != 0 {
				c = tb.And(c, tb.Not(diff))
			}
		}
		return c
	}
	matched := tb.ff
	var reach []*Term
	var onStack []bool
	var add func(pc uint32, cond *Term, pos int)
	add = func(pc uint32, cond *Term, pos int) {
		if cond == tb.ff || onStack[pc] {
			return
		}
		inst := &prog.Inst[pc]
		switch inst.Op {
		case syntax.InstFail:
		case syntax.InstAlt, syntax.InstAltMatch:
			onStack[pc] = true
			add(inst.Out, cond, pos)
			add(inst.Arg, cond, pos)
			onStack[pc] = false
		case syntax.InstCapture, syntax.InstNop:
			onStack[pc] = true
			add(inst.Out, cond, pos)
			onStack[pc] = false
		case syntax.InstEmptyWidth:
			onStack[pc] = true
			add(inst.Out, tb.And(cond, empty(syntax.EmptyOp(inst.Arg), pos)), pos)
			onStack[pc] = false
		case syntax.InstMatch:
			matched = tb.Or(matched, cond)
		default: // rune instructions
			if reach[pc] == nil {
				reach[pc] = cond
			} else {
				reach[pc] = tb.Or(reach[pc], cond)
			}
		}
	}
	var cur []*Term
	for pos := 0; pos <= n; pos++ {
		reach = make([]*Term, len(prog.Inst))
		onStack = make([]bool, len(prog.Inst))
		// unanchored search: a new thread starts at every position
		add(uint32(prog.Start), tb.tt, pos)
		if cur != nil {
			for pc, c := range cur {
				if c == nil {
					continue
				}
				inst := &prog.Inst[pc]
				m := class(func(ch byte) bool { return inst.MatchRune(rune(ch)) }, bs[pos-1])
				add(inst.Out, tb.And(c, m), pos)
			}
		}
		cur = reach
	}
	return matched, true
}

// ---- other Regexp methods: host fallback for concrete operands

// regexpHostMethods are the (*regexp.Regexp) methods answered by the host's regexp
// package when the pattern and every operand are concrete. With a symbolic subject
// the NFA model decides whether a match is possible at all on this path: if not, the
// method's no-match result is exact (nil, or the subject unchanged); otherwise the
// engine answers inconclusive, since match extents over symbolic bytes are not modelled.
var regexpHostMethods = []string{
	"ReplaceAllString", "ReplaceAllLiteralString", "ReplaceAll", "ReplaceAllLiteral",
	"FindString", "FindStringIndex", "FindStringSubmatch", "FindStringSubmatchIndex",
	"FindAllString", "FindAllStringIndex", "FindAllStringSubmatch",
	"Find", "FindIndex", "FindSubmatch", "FindSubmatchIndex", "FindAll", "FindAllSubmatch",
	"Split", "NumSubexp", "SubexpNames", "SubexpIndex", "LiteralPrefix", "Longest",
}

func init() {
	for _, m := range regexpHostMethods {
		m := m
		externals["(*regexp.Regexp)."+m] = func(fr *frame, args []value) value { return fr.i.regexpHost(fr, m, args) }
	}
	externals["regexp.QuoteMeta"] = func(fr *frame, args []value) value {
		s, ok := args[0].(string)
		if !ok {
			fr.i.abort("regexp.QuoteMeta of a symbolic string")
		}
		return regexp.QuoteMeta(s)
	}
}

func (i *interpreter) regexpHost(fr *frame, method string, args []value) value {
	pat := i.regexpPattern(args[0])
	ps, ok := pat.(string)
	if !ok {
		i.abort("regexp model: (*Regexp).%s with a symbolic pattern", method)
	}
	re, err := regexp.Compile(ps)
	if err != nil {
		i.abort("regexp model: pattern does not compile: %v", err)
	}
	mv := reflect.ValueOf(re).MethodByName(method)
	mt := mv.Type()
	in := make([]reflect.Value, len(args)-1)
	concrete := len(args)-1 == mt.NumIn()
	for k := 1; concrete && k < len(args); k++ {
		v, ok := toGo(args[k], mt.In(k-1))
		if !ok {
			concrete = false
			break
		}
		in[k-1] = v
	}
	if concrete {
		out := mv.Call(in)
		if len(out) == 0 {
			return nil
		}
		if len(out) == 1 {
			r, ok := fromGo(out[0])
			if !ok {
				i.abort("regexp model: result of %s not convertible", method)
			}
			return r
		}
		tup := make(tuple, len(out))
		for k := range out {
			r, ok := fromGo(out[k])
			if !ok {
				i.abort("regexp model: result of %s not convertible", method)
			}
			tup[k] = r
		}
		return tup
	}
	// symbolic subject: exact only when no match is possible on this path
	if len(args) >= 2 {
		var subj []value
		switch s := args[1].(type) {
		case string, symstr:
			subj = strBytes(s)
		case []value:
			subj = s
		}
		if subj != nil || args[1] != nil {
			if m, ok := i.regexpNFA(ps, subj); ok && !i.decide(m) {
				switch {
				case strings.HasPrefix(method, "ReplaceAll"):
					if b, isBytes := args[1].([]value); isBytes {
						return append([]value(nil), b...)
					}
					return args[1]
				case method == "FindString":
					return ""
				case method == "Split":
				default:
					if mt.NumOut() == 1 && (mt.Out(0).Kind() == reflect.Slice) {
						return []value(nil)
					}
				}
			}
		}
	}
	i.abort("regexp model: (*Regexp).%s on a symbolic subject that may match", method)
	return nil
}
