package interp

// Symbolic matching of a concrete regular expression against a string with
// symbolic bytes: the pattern is compiled by the host's regexp/syntax into
// its NFA program, and the Thompson simulation is run with a Bool term per
// program counter ("reachable at this position") instead of a bit. The result
// is one Bool term over the subject's bytes, exact for subjects whose symbolic
// bytes are ASCII (checked, not assumed).

import (
	"regexp/syntax"
)

func (i *interpreter) regexpNFA(pattern string, subject []value) (*Term, bool) {
	re, err := syntax.Parse(pattern, syntax.Perl)
	if err != nil {
		return nil, false
	}
	prog, err := syntax.Compile(re.Simplify())
	if err != nil {
		return nil, false
	}
	tb := i.tb
	n := len(subject)
	// subject bytes as terms; symbolic bytes must be ASCII on this path
	bs := make([]*Term, n)
	for k, b := range subject {
		switch b := b.(type) {
		case byte:
			if b >= 0x80 {
				i.abort("regexp model: non-ASCII subject byte with a symbolic subject")
			}
			bs[k] = tb.BV(8, uint64(b))
		case *Term:
			if !i.decide(tb.Bin(opUlt, b, tb.BV(8, 0x80))) {
				i.abort("regexp model: symbolic subject byte may be non-ASCII")
			}
			bs[k] = b
		}
	}
	class := func(pred func(c byte) bool, t *Term) *Term {
		res := tb.ff
		c := 0
		for c < 128 {
			if !pred(byte(c)) {
				c++
				continue
			}
			lo := c
			for c < 128 && pred(byte(c)) {
				c++
			}
			hi := c - 1
			if lo == hi {
				res = tb.Or(res, tb.Eq(t, tb.BV(8, uint64(lo))))
			} else {
				res = tb.Or(res, tb.And(tb.Bin(opUle, tb.BV(8, uint64(lo)), t), tb.Bin(opUle, t, tb.BV(8, uint64(hi)))))
			}
		}
		return res
	}
	isWord := func(c byte) bool {
		return c >= 'a' && c <= 'z' || c >= 'A' && c <= 'Z' || c >= '0' && c <= '9' || c == '_'
	}
	wordAt := func(pos int) *Term {
		if pos < 0 || pos >= n {
			return tb.ff
		}
		return class(isWord, bs[pos])
	}
	nlAt := func(pos int) *Term { return tb.Eq(bs[pos], tb.BV(8, '\n')) }
	empty := func(op syntax.EmptyOp, pos int) *Term {
		c := tb.tt
		if op&syntax.EmptyBeginText != 0 && pos != 0 {
			c = tb.ff
		}
		if op&syntax.EmptyEndText != 0 && pos != n {
			c = tb.ff
		}
		if op&syntax.EmptyBeginLine != 0 && pos != 0 {
			c = tb.And(c, nlAt(pos-1))
		}
		if op&syntax.EmptyEndLine != 0 && pos != n {
			c = tb.And(c, nlAt(pos))
		}
		if op&(syntax.EmptyWordBoundary|syntax.EmptyNoWordBoundary) != 0 {
			a, b := wordAt(pos-1), wordAt(pos)
			diff := tb.Or(tb.And(a, tb.Not(b)), tb.And(tb.Not(a), b))
			if op&syntax.EmptyWordBoundary != 0 {
				c = tb.And(c, diff)
			}
			if op&syntax.EmptyNoWordBoundary != 0 {
				c = tb.And(c, tb.Not(diff))
			}
		}
		return c
	}
	matched := tb.ff
	var reach []*Term
	var onStack []bool
	var add func(pc uint32, cond *Term, pos int)
	add = func(pc uint32, cond *Term, pos int) {
		if cond == tb.ff || onStack[pc] {
			return
		}
		inst := &prog.Inst[pc]
		switch inst.Op {
		case syntax.InstFail:
		case syntax.InstAlt, syntax.InstAltMatch:
			onStack[pc] = true
			add(inst.Out, cond, pos)
			add(inst.Arg, cond, pos)
			onStack[pc] = false
		case syntax.InstCapture, syntax.InstNop:
			onStack[pc] = true
			add(inst.Out, cond, pos)
			onStack[pc] = false
		case syntax.InstEmptyWidth:
			onStack[pc] = true
			add(inst.Out, tb.And(cond, empty(syntax.EmptyOp(inst.Arg), pos)), pos)
			onStack[pc] = false
		case syntax.InstMatch:
			matched = tb.Or(matched, cond)
		default: // rune instructions
			if reach[pc] == nil {
				reach[pc] = cond
			} else {
				reach[pc] = tb.Or(reach[pc], cond)
			}
		}
	}
	var cur []*Term
	for pos := 0; pos <= n; pos++ {
		reach = make([]*Term, len(prog.Inst))
		onStack = make([]bool, len(prog.Inst))
		// unanchored search: a new thread starts at every position
		add(uint32(prog.Start), tb.tt, pos)
		if cur != nil {
			for pc, c := range cur {
				if c == nil {
					continue
				}
				inst := &prog.Inst[pc]
				m := class(func(ch byte) bool { return inst.MatchRune(rune(ch)) }, bs[pos-1])
				add(inst.Out, tb.And(c, m), pos)
			}
		}
		cur = reach
	}
	return matched, true
}
