package interp

// Cooperative scheduler for interpreted goroutines. Exactly one interpreted
// thread runs at any time; at yield points (file-system operations, lock
// operations, accesses to objects the harness marked shared) the next thread
// to run is a recorded choice of the path vector, so every schedule within
// the preemption bound is explored.

import (
	"fmt"
	"go/token"
	"path/filepath"
	"strings"

	"golang.org/x/tools/go/ssa"
)

type threadKill struct{}

// goexitSignal unwinds a thread that called runtime.Goexit (running its deferred calls).
type goexitSignal struct{}

type gthread struct {
	id      int
	wake    chan struct{}
	done    bool
	blocked func() bool // non-nil: thread can run only when it returns false
	panicv  interface{}
}

type sched struct {
	i           *interpreter
	threads     []*gthread
	cur         *gthread
	preemptions int
	bound       int
	killed      bool
	finished    chan struct{}
	shared      map[interface{}]bool
	racy        map[*value]bool // cells of package-level variables (SharedGlobals): yield before and after a store
	racyPrefix  string
	switches    int
}

type lockState struct {
	writer         int // thread id+1 holding the write lock, 0 if none
	readers        map[int]int
	waitingWriters int
}

type wgState struct {
	n int
}

func newSched(i *interpreter) *sched {
	main := &gthread{id: 0, wake: make(chan struct{}, 1)}
	b := 2
	if v, ok := i.eng.Opts.Params["preempt"]; ok {
		b = v
	}
	return &sched{i: i, threads: []*gthread{main}, cur: main, bound: b, shared: map[interface{}]bool{}}
}

func (s *sched) runnable() []*gthread {
	var out []*gthread
	for _, t := range s.threads {
		if t.done {
			continue
		}
		if t.blocked != nil && t.blocked() {
			continue
		}
		out = append(out, t)
	}
	return out
}

// spawn starts an interpreted goroutine; it does not run until scheduled.
func (i *interpreter) spawn(fr *frame, pos token.Pos, fn value, args []value) {
	s := i.path.sched
	t := &gthread{id: len(s.threads), wake: make(chan struct{}, 1)}
	s.threads = append(s.threads, t)
	i.refreshRacy()
	go func() {
		<-t.wake
		if s.killed {
			return
		}
		defer func() {
			r := recover()
			if _, ok := r.(threadKill); ok {
				return
			}
			t.done = true
			if _, isExit := r.(goexitSignal); isExit {
				r = nil // runtime.Goexit: the deferred calls have run, the thread just ends
			}
			if r != nil {
				t.panicv = r
			}
			s.handoff(t)
		}()
		// the goroutine's stack is rooted in runtime.goexit, not in the test runner
		call(i, &frame{i: i, goexit: true}, pos, fn, args)
	}()
}

// handoff is called by a thread that has finished: pass the baton on.
func (s *sched) handoff(from *gthread) {
	if from.panicv != nil {
		// deliver to main thread: wake it, it will re-panic
		main := s.threads[0]
		s.cur = main
		main.wake <- struct{}{}
		return
	}
	rs := s.runnable()
	if len(rs) == 0 {
		// everything blocked or done; main must be blocked -> deadlock, wake main to report
		main := s.threads[0]
		s.cur = main
		main.wake <- struct{}{}
		return
	}
	k := 0
	if len(rs) > 1 {
		k = s.i.choose(len(rs))
	}
	s.cur = rs[k]
	rs[k].wake <- struct{}{}
}

// wait parks the current thread until it is scheduled again.
func (s *sched) park(t *gthread) {
	<-t.wake
	if s.killed {
		panic(threadKill{})
	}
	// propagate panics of other threads through the main thread
	if t.id == 0 {
		for _, o := range s.threads {
			if o.panicv != nil {
				pv := o.panicv
				o.panicv = nil
				panic(pv)
			}
		}
	}
}

// yield is a scheduling point of the current thread.
func (i *interpreter) yield() {
	s := i.path.sched
	if s == nil || len(s.threads) == 1 {
		return
	}
	cur := s.cur
	rs := s.runnable()
	if len(rs) == 0 {
		i.reportViolation("deadlock", "all goroutines are blocked")
		panic(pathEnd{})
	}
	curRunnable := false
	for _, t := range rs {
		if t == cur {
			curRunnable = true
		}
	}
	var next *gthread
	if curRunnable {
		if s.preemptions >= s.bound || len(rs) == 1 {
			return
		}
		// order: current first, so that choice 0 = no preemption
		ord := []*gthread{cur}
		for _, t := range rs {
			if t != cur {
				ord = append(ord, t)
			}
		}
		k := i.choose(len(ord))
		if k == 0 {
			return
		}
		s.preemptions++
		next = ord[k]
	} else {
		k := 0
		if len(rs) > 1 {
			k = i.choose(len(rs))
		}
		next = rs[k]
	}
	s.switches++
	s.cur = next
	next.wake <- struct{}{}
	s.park(cur)
}

// block parks the current thread until cond() is false.
func (i *interpreter) blockWhile(cond func() bool) {
	s := i.path.sched
	cur := s.cur
	for cond() {
		if len(s.threads) == 1 {
			i.reportViolation("deadlock", "the only goroutine blocks forever")
			panic(pathEnd{})
		}
		cur.blocked = cond
		i.yield()
		cur.blocked = nil
	}
}

// mainDone: the harness function returned; remaining threads are abandoned
// (harnesses join their goroutines explicitly).
func (s *sched) mainDone() {}

func (s *sched) killAll() {
	s.killed = true
	for _, t := range s.threads[1:] {
		if !t.done {
			select {
			case t.wake <- struct{}{}:
			default:
			}
		}
	}
}

// yieldShared is a scheduling point before an access to an object the harness
// declared shared (micro-harnesses on registries).
func (i *interpreter) yieldShared(obj interface{}) {
	s := i.path.sched
	if s == nil || len(s.threads) == 1 || len(s.shared) == 0 {
		return
	}
	if s.shared[obj] {
		i.yield()
	}
}

// racyCell reports whether addr is a cell of a package-level variable that
// the harness put under SharedGlobals (and more than one thread exists).
func (i *interpreter) racyCell(addr *value) bool {
	s := i.path.sched
	return s != nil && len(s.racy) > 0 && len(s.threads) > 1 && i.inInit == 0 && s.racy[addr]
}

// registerRacy records the cell of a package-level variable and, recursively,
// the cells of its struct fields and array elements, and maps held directly.
func (s *sched) registerRacy(addr *value) { s.registerRacyDepth(addr, 2) }

// refreshRacy re-walks the package-level variables under SharedGlobals (called when a thread
// is spawned: by then initialisers have run and pointers held by globals have their targets).
func (i *interpreter) refreshRacy() {
	s := i.path.sched
	if s == nil || s.racyPrefix == "" {
		return
	}
	for g, addr := range i.globals {
		if i.racyGlobal(g) {
			delete(s.racy, addr)
			s.registerRacy(addr)
		}
	}
}

// registerRacyDepth: depth bounds how many pointers are followed from the variable itself
// (`var scratch = &T{}` is as much a shared scratch value as `var scratch T`).
func (s *sched) registerRacyDepth(addr *value, depth int) {
	if addr == nil || s.racy[addr] {
		return
	}
	s.racy[addr] = true
	switch v := (*addr).(type) {
	case *value:
		if depth > 0 && v != nil {
			s.registerRacyDepth(v, depth-1)
		}
	case structure:
		for k := range v {
			s.registerRacyDepth(&v[k], depth)
		}
	case array:
		for k := range v {
			s.registerRacyDepth(&v[k], depth)
		}
	case *omap:
		if v != nil {
			s.shared[v] = true
		}
	}
}

// racyGlobal decides whether a package-level variable falls under SharedGlobals:
// declared in a package below the prefix, and not in a harness overlay file.
func (i *interpreter) racyGlobal(g *ssa.Global) bool {
	s := i.path.sched
	if s == nil || s.racyPrefix == "" || g.Pkg == nil {
		return false
	}
	path := g.Pkg.Pkg.Path()
	if !strings.HasPrefix(path, s.racyPrefix) || strings.HasSuffix(path, "/internal/vxrt") {
		return false
	}
	file := i.eng.Prog.Fset.Position(g.Pos()).Filename
	return !strings.HasPrefix(filepath.Base(file), "zz_")
}

func (i *interpreter) checkFrozen(addr *value) {
	p := i.path
	if len(p.frozen) == 0 && len(p.roCells) == 0 {
		return
	}
	if what, ok := p.frozen[addr]; ok {
		// reported once per object and path; execution goes on so that the
		// consequences (which a native run can observe) are reported as well
		key := "frozen-reported:" + what
		if p.extra[key] == nil {
			p.extra[key] = true
			i.reportViolation("frozen-write", fmt.Sprintf("write to frozen object %s", what))
		}
	}
	if p.roCells[addr] {
		i.abort("store through a symbolic table index")
	}
}
