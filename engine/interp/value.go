// Copyright 2013 The Go Authors. All rights reserved.
// Use of this source code is governed by a BSD-style
// license that can be found in the LICENSE file.
//
// Modified for gosym: symbolic scalars (*Term), strings with symbolic bytes
// (symstr), insertion-ordered maps with decided key equality (*omap).

package interp

// Values
//
// All interpreter values are "boxed" in the empty interface, value.
// The range of possible dynamic types within value are:
//
// - bool, or *Term of width 0
// - numbers (all built-in int/float/complex types are distinguished), or *Term of width 8/16/32/64
// - string, or symstr (a string at least one byte of which is symbolic)
// - *omap --- maps
// - chan value
// - []value --- slices
// - iface --- interfaces.
// - structure --- structs.  Fields are ordered and accessed by numeric indices.
// - array --- arrays.
// - *value --- pointers.  Careful: *value is a distinct type from *array etc.
// - *ssa.Function \
//   *ssa.Builtin   } --- functions.  A nil 'func' is always of type *ssa.Function.
//   *closure      /
// - tuple --- as returned by Return, Next, "value,ok" modes, etc.
// - iter --- iterators from 'range' over map or string.
// - bad --- a poison pill for locals that have gone out of scope.
// - **deferred -- the address of a frame's defer stack for a Defer._Stack.

import (
	"bytes"
	"fmt"
	"go/types"
	"unicode/utf8"
	"unsafe"

	"golang.org/x/tools/go/ssa"
)

type value interface{}

type tuple []value

type array []value

type iface struct {
	t types.Type // never an "untyped" type
	v value
}

type structure []value

// symstr is an immutable string some of whose bytes are symbolic. Each
// element is a byte or a *Term of width 8. Its length is concrete.
type symstr []value

// mkstr builds a string value from bytes: a Go string if all are concrete.
func mkstr(bs []value) value {
	conc := true
	for _, b := range bs {
		if _, ok := b.(*Term); ok {
			conc = false
			break
		}
	}
	if conc {
		buf := make([]byte, len(bs))
		for i, b := range bs {
			buf[i] = b.(byte)
		}
		return string(buf)
	}
	out := make(symstr, len(bs))
	copy(out, bs)
	return out
}

// strBytes returns the bytes of a string value (string or symstr) as values.
// The result must not be modified when it is a symstr.
func strBytes(s value) []value {
	switch s := s.(type) {
	case string:
		out := make([]value, len(s))
		for i := 0; i < len(s); i++ {
			out[i] = s[i]
		}
		return out
	case symstr:
		return []value(s)
	}
	panic(fmt.Sprintf("strBytes: not a string: %T", s))
}

func strLen(s value) int {
	switch s := s.(type) {
	case string:
		return len(s)
	case symstr:
		return len(s)
	}
	panic(fmt.Sprintf("strLen: not a string: %T", s))
}

func isStr(v value) bool {
	switch v.(type) {
	case string, symstr:
		return true
	}
	return false
}

// For map, array, *array, slice, string or channel.
type iter interface {
	// next returns a Tuple (key, value, ok).
	// key and value are unaliased, e.g. copies of the sequence element.
	next() tuple
}

type closure struct {
	Fn  *ssa.Function
	Env []value
}

type bad struct{}

// nil-tolerant variant of types.Identical.
func sameType(x, y types.Type) bool {
	if x == nil {
		return y == nil
	}
	return y != nil && types.Identical(x, y)
}

// equalsT returns x == y for type t as a value: a bool, or a Bool *Term when
// the comparison is symbolic and t is a basic type. For composite types the
// comparison is decided (forks) component by component.
func equalsT(i *interpreter, t types.Type, x, y value) value {
	_, xs := x.(*Term)
	_, ys := y.(*Term)
	if xs || ys {
		w := widthOf(t)
		return i.tb.Eq(toTerm(i, x, w), toTerm(i, y, w))
	}
	_, xss := x.(symstr)
	_, yss := y.(symstr)
	if xss || yss {
		return strEqTerm(i, x, y)
	}
	return equals(i, t, x, y)
}

// strEqTerm returns the (possibly symbolic) equality of two string values.
func strEqTerm(i *interpreter, x, y value) value {
	if strLen(x) != strLen(y) {
		return false
	}
	xb, yb := strBytes(x), strBytes(y)
	acc := i.tb.tt
	for k := range xb {
		xt, xok := xb[k].(*Term)
		yt, yok := yb[k].(*Term)
		if !xok && !yok {
			if xb[k].(byte) != yb[k].(byte) {
				return false
			}
			continue
		}
		if !xok {
			xt = i.tb.BV(8, uint64(xb[k].(byte)))
		}
		if !yok {
			yt = i.tb.BV(8, uint64(yb[k].(byte)))
		}
		acc = i.tb.And(acc, i.tb.Eq(xt, yt))
		if acc.isFalse() {
			return false
		}
	}
	if acc.isConst() {
		return acc.val != 0
	}
	return acc
}

// truth turns a bool-or-Term into a Go bool, forking on the path if needed.
func (i *interpreter) truth(v value) bool {
	switch v := v.(type) {
	case bool:
		return v
	case *Term:
		return i.decide(v)
	}
	panic(fmt.Sprintf("truth: not a bool: %T", v))
}

// equals returns true iff x and y are equal according to Go's
// linguistic equivalence relation for type t.
// In a well-typed program, the dynamic types of x and y are
// guaranteed equal. Symbolic comparisons are decided on the current path.
func equals(i *interpreter, t types.Type, x, y value) bool {
	switch x := x.(type) {
	case *Term:
		return i.truth(equalsT(i, t, x, y))
	case symstr:
		return i.truth(strEqTerm(i, x, y))
	}
	switch y.(type) {
	case *Term, symstr:
		return i.truth(equalsT(i, t, x, y))
	}
	switch x := x.(type) {
	case bool:
		return x == y.(bool)
	case int:
		return x == y.(int)
	case int8:
		return x == y.(int8)
	case int16:
		return x == y.(int16)
	case int32:
		return x == y.(int32)
	case int64:
		return x == y.(int64)
	case uint:
		return x == y.(uint)
	case uint8:
		return x == y.(uint8)
	case uint16:
		return x == y.(uint16)
	case uint32:
		return x == y.(uint32)
	case uint64:
		return x == y.(uint64)
	case uintptr:
		return x == y.(uintptr)
	case float32:
		return x == y.(float32)
	case float64:
		return x == y.(float64)
	case complex64:
		return x == y.(complex64)
	case complex128:
		return x == y.(complex128)
	case string:
		return x == y.(string)
	case *value:
		return x == y.(*value)
	case chan value:
		return x == y.(chan value)
	case unsafe.Pointer:
		return x == y.(unsafe.Pointer)
	case uptr:
		yu := y.(uptr)
		if x.isNil() || yu.isNil() {
			return x.isNil() == yu.isNil()
		}
		if x.p != nil || yu.p != nil {
			return x.p == yu.p
		}
		return i.ptrAddr(x) == i.ptrAddr(yu)
	case structure:
		y := y.(structure)
		tStruct := t.Underlying().(*types.Struct)
		for k, n := 0, tStruct.NumFields(); k < n; k++ {
			if f := tStruct.Field(k); f.Name() != "_" {
				if !equals(i, f.Type(), x[k], y[k]) {
					return false
				}
			}
		}
		return true
	case array:
		y := y.(array)
		tElt := t.Underlying().(*types.Array).Elem()
		for k, xi := range x {
			if !equals(i, tElt, xi, y[k]) {
				return false
			}
		}
		return true
	case iface:
		y := y.(iface)
		return sameType(x.t, y.t) && (x.t == nil || equals(i, x.t, x.v, y.v))
	}

	// Since map, func and slice don't support comparison, this
	// case is only reachable if one of x or y is literally nil
	// (handled in eqnil) or via interface{} values.
	panic(targetPanic{fmt.Sprintf("runtime error: comparing uncomparable type %s", t)})
}

// reflect.Value struct values don't have a fixed shape, since the
// payload can be a scalar or an aggregate depending on the instance.
// So store (and load) can't simply use recursion over the shape of the
// rhs value, or the lhs, to copy the value; we need the static type
// information.

// load returns the value of type T in *addr.
func load(T types.Type, addr *value) value {
	switch T := T.Underlying().(type) {
	case *types.Struct:
		v := (*addr).(structure)
		a := make(structure, len(v))
		for i := range a {
			a[i] = load(T.Field(i).Type(), &v[i])
		}
		return a
	case *types.Array:
		v := (*addr).(array)
		a := make(array, len(v))
		for i := range a {
			a[i] = load(T.Elem(), &v[i])
		}
		return a
	default:
		return *addr
	}
}

// store stores value v of type T into *addr.
func store(T types.Type, addr *value, v value) {
	switch T := T.Underlying().(type) {
	case *types.Struct:
		lhs := (*addr).(structure)
		rhs := v.(structure)
		for i := range lhs {
			store(T.Field(i).Type(), &lhs[i], rhs[i])
		}
	case *types.Array:
		lhs := (*addr).(array)
		rhs := v.(array)
		for i := range lhs {
			store(T.Elem(), &lhs[i], rhs[i])
		}
	default:
		*addr = v
	}
}

// Prints in the style of built-in println.
func writeValue(buf *bytes.Buffer, v value) {
	switch v := v.(type) {
	case nil, bool, int, int8, int16, int32, int64, uint, uint8, uint16, uint32, uint64, uintptr, float32, float64, complex64, complex128, string:
		fmt.Fprintf(buf, "%v", v)

	case *Term:
		buf.WriteString(v.String())

	case symstr:
		buf.WriteString("sym\"")
		for _, b := range v {
			if c, ok := b.(byte); ok {
				fmt.Fprintf(buf, "%s", string(rune(c)))
			} else {
				fmt.Fprintf(buf, "<%s>", b.(*Term).String())
			}
		}
		buf.WriteString("\"")

	case *omap:
		buf.WriteString("map[")
		sep := ""
		if v != nil {
			for k := range v.keys {
				if v.dead[k] {
					continue
				}
				buf.WriteString(sep)
				sep = " "
				writeValue(buf, v.keys[k])
				buf.WriteString(":")
				writeValue(buf, v.vals[k])
			}
		}
		buf.WriteString("]")

	case chan value:
		fmt.Fprintf(buf, "%v", v) // (an address)

	case *value:
		if v == nil {
			buf.WriteString("<nil>")
		} else {
			fmt.Fprintf(buf, "%p", v)
		}

	case iface:
		fmt.Fprintf(buf, "(%s, ", v.t)
		writeValue(buf, v.v)
		buf.WriteString(")")

	case structure:
		buf.WriteString("{")
		for i, e := range v {
			if i > 0 {
				buf.WriteString(" ")
			}
			writeValue(buf, e)
		}
		buf.WriteString("}")

	case array:
		buf.WriteString("[")
		for i, e := range v {
			if i > 0 {
				buf.WriteString(" ")
			}
			writeValue(buf, e)
		}
		buf.WriteString("]")

	case []value:
		buf.WriteString("[")
		for i, e := range v {
			if i > 0 {
				buf.WriteString(" ")
			}
			writeValue(buf, e)
		}
		buf.WriteString("]")

	case *ssa.Function, *ssa.Builtin, *closure:
		fmt.Fprintf(buf, "%p", v) // (an address)

	case tuple:
		// Unreachable in well-formed Go programs
		buf.WriteString("(")
		for i, e := range v {
			if i > 0 {
				buf.WriteString(", ")
			}
			writeValue(buf, e)
		}
		buf.WriteString(")")

	default:
		fmt.Fprintf(buf, "<%T>", v)
	}
}

// Implements printing of Go values in the style of built-in println.
func toString(v value) string {
	var b bytes.Buffer
	writeValue(&b, v)
	return b.String()
}

// ------------------------------------------------------------------------
// Iterators

// stringIter ranges over the runes of a string value. Decoding of symbolic
// bytes is done by the interpreted unicode/utf8.DecodeRuneInString.
type stringIter struct {
	i   *interpreter
	s   value
	pos int
}

func (it *stringIter) next() tuple {
	okv := make(tuple, 3)
	n := strLen(it.s)
	if it.pos >= n {
		okv[0] = false
		return okv
	}
	okv[0] = true
	okv[1] = it.pos
	if s, ok := it.s.(string); ok {
		r, sz := utf8.DecodeRuneInString(s[it.pos:])
		okv[2] = r
		it.pos += sz
		return okv
	}
	rest := slice(it.i, it.s, it.pos, nil, nil)
	res := it.i.callByName("unicode/utf8", "DecodeRuneInString", []value{rest}).(tuple)
	okv[2] = res[0]
	it.pos += int(asInt64(it.i, res[1]))
	return okv
}

type omapIter struct {
	m   *omap
	pos int
}

func (it *omapIter) next() tuple {
	if it.m != nil {
		for it.pos < len(it.m.keys) {
			k := it.pos
			it.pos++
			if !it.m.dead[k] {
				return []value{true, it.m.keys[k], it.m.vals[k]}
			}
		}
	}
	return []value{false, nil, nil}
}
