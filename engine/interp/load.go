package interp

import (
	"fmt"
	"go/types"
	"os"
	"path/filepath"
	"strings"

	"golang.org/x/tools/go/packages"
	"golang.org/x/tools/go/ssa"
	"golang.org/x/tools/go/ssa/ssautil"
)

// LoadConfig says where the code under test is and which harness files to
// overlay onto it.
type LoadConfig struct {
	RepoDir  string
	Overlay  map[string][]byte // virtual path -> contents
	Patterns []string
	Tags     string
}

type Program struct {
	Prog *ssa.Program
	Pkgs []*ssa.Package
}

// Load type-checks the repository's current working tree (plus overlays) and
// builds SSA for it and all its dependencies. Nothing is cached between runs.
func Load(cfg LoadConfig) (*Program, error) {
	pc := &packages.Config{
		Mode:       packages.LoadAllSyntax,
		Dir:        cfg.RepoDir,
		BuildFlags: []string{"-tags=" + cfg.Tags},
		Overlay:    cfg.Overlay,
		Env:        append(os.Environ(), "GOFLAGS=-mod=mod", "GOPROXY=off", "GOSUMDB=off", "GOTOOLCHAIN=local"),
	}
	pkgs, err := packages.Load(pc, cfg.Patterns...)
	if err != nil {
		return nil, err
	}
	var errs []string
	packages.Visit(pkgs, nil, func(p *packages.Package) {
		for _, e := range p.Errors {
			errs = append(errs, e.Error())
		}
	})
	if len(errs) > 0 {
		if len(errs) > 10 {
			errs = errs[:10]
		}
		return nil, fmt.Errorf("load errors:\n%s", strings.Join(errs, "\n"))
	}
	prog, spkgs := ssautil.AllPackages(pkgs, ssa.InstantiateGenerics)
	prog.Build()
	return &Program{Prog: prog, Pkgs: spkgs}, nil
}

var defaultStubbed = []string{
	"os", "syscall", "runtime", "reflect", "internal/reflectlite", "sync", "sync/atomic", "time",
	"fmt", "regexp", "regexp/syntax", "go/parser", "go/scanner", "encoding/json", "unicode",
	"runtime/debug", "testing", "flag", "internal/bytealg", "internal/cpu", "internal/poll",
	"github.com/kr/pretty", "github.com/kr/text", "github.com/goccy/go-yaml", "github.com/goccy/go-yaml/parser",
	"github.com/goccy/go-yaml/ast", "github.com/goccy/go-yaml/lexer", "github.com/goccy/go-yaml/printer",
	"github.com/goccy/go-yaml/scanner", "github.com/goccy/go-yaml/token", "github.com/goccy/go-yaml/internal/errors",
	"github.com/gkampitakis/go-diff/diffmatchpatch", "github.com/gkampitakis/ciinfo",
	"github.com/gkampitakis/go-snaps/match/internal/yaml", "text/tabwriter", "math/rand", "os/exec",
}

// functions of stubbed packages that may nevertheless be interpreted from SSA
// (pure accessors).
var defaultAllow = []string{
	"(*flag.stringValue).String", "(*go/ast.Ident).String", "(io/fs.FileMode).IsDir",
	"sync/atomic.b32",
	"(*sync/atomic.Bool).Load", "(*sync/atomic.Bool).Store", "(*sync/atomic.Bool).Swap", "(*sync/atomic.Bool).CompareAndSwap",
	"(*sync/atomic.Int32).Load", "(*sync/atomic.Int32).Store", "(*sync/atomic.Int32).Add", "(*sync/atomic.Int32).Swap", "(*sync/atomic.Int32).CompareAndSwap",
	"(*sync/atomic.Int64).Load", "(*sync/atomic.Int64).Store", "(*sync/atomic.Int64).Add", "(*sync/atomic.Int64).Swap", "(*sync/atomic.Int64).CompareAndSwap",
	"(*sync/atomic.Uint32).Load", "(*sync/atomic.Uint32).Store", "(*sync/atomic.Uint32).Add", "(*sync/atomic.Uint32).Swap", "(*sync/atomic.Uint32).CompareAndSwap",
	"(*sync/atomic.Uint64).Load", "(*sync/atomic.Uint64).Store", "(*sync/atomic.Uint64).Add", "(*sync/atomic.Uint64).Swap", "(*sync/atomic.Uint64).CompareAndSwap",
}

// source files of stubbed packages that are pure (no reflection, no globals that
// need the package initialiser) and are interpreted from SSA all the same.
var defaultAllowFiles = map[string]map[string]bool{
	"encoding/json": {"scanner.go": true, "indent.go": true},
}

func (e *Engine) allowedFile(fn *ssa.Function) bool {
	if fn.Pkg == nil {
		return false
	}
	files := defaultAllowFiles[fn.Pkg.Pkg.Path()]
	if files == nil {
		return false
	}
	pos := fn.Pos()
	if !pos.IsValid() && fn.Parent() != nil {
		pos = fn.Parent().Pos()
	}
	if !pos.IsValid() {
		return false
	}
	return files[filepath.Base(e.Prog.Fset.Position(pos).Filename)]
}

// NewEngine prepares an exploration of the named harness function.
func NewEngine(p *Program, pkgPath, harness string, opts Options) (*Engine, error) {
	var hp *ssa.Package
	for _, sp := range p.Prog.AllPackages() {
		if sp.Pkg.Path() == pkgPath {
			hp = sp
		}
	}
	if hp == nil {
		return nil, fmt.Errorf("package %s not found", pkgPath)
	}
	fn := hp.Func(harness)
	if fn == nil {
		return nil, fmt.Errorf("harness %s not found in %s", harness, pkgPath)
	}
	rt := p.Prog.ImportedPackage("runtime")
	if rt == nil {
		return nil, fmt.Errorf("runtime package not loaded")
	}
	e := &Engine{
		Prog:     p.Prog,
		Harness:  fn,
		Sizes:    types.SizesFor("gc", "amd64"),
		Opts:     opts,
		stubbed:  map[string]bool{},
		allowFn:  map[string]bool{},
		runtimeE: rt.Type("errorString").Object().Type(),
	}
	for _, s := range defaultStubbed {
		e.stubbed[s] = true
	}
	for _, s := range defaultAllow {
		e.allowFn[s] = true
	}
	e.globalOverrides = map[string]func(i *interpreter) value{
		"github.com/gkampitakis/ciinfo.IsCI": func(i *interpreter) value {
			if v, ok := i.path.extra["ci"]; ok {
				return v
			}
			return false
		},
		// CI is realised natively by CI=true alone (a vendor-neutral variable): no vendor name, no PR
		"github.com/gkampitakis/ciinfo.Name": func(i *interpreter) value { return "" },
		"github.com/gkampitakis/ciinfo.IsPr": func(i *interpreter) value { return false },
		"internal/bytealg.MaxLen":            func(i *interpreter) value { return 64 },
	}
	if e.Opts.MaxSteps == 0 {
		e.Opts.MaxSteps = 20_000_000
	}
	if e.Opts.TimeoutMs == 0 {
		e.Opts.TimeoutMs = 60000
	}
	return e, nil
}
