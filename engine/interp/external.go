package interp

// Intrinsics: leaf functions that cannot be interpreted from SSA (assembly,
// unsafe, runtime) and the synchronisation primitives.

import (
	"fmt"
	"go/types"

	"golang.org/x/tools/go/ssa"
)

type externalFn func(fr *frame, args []value) value

// Key strings are from Function.String().
var externals = make(map[string]externalFn)

const vxPkg = "github.com/gkampitakis/go-snaps/internal/vxrt"

func (i *interpreter) namedType(pkgPath, name string) types.Type {
	pkg := i.prog.ImportedPackage(pkgPath)
	if pkg == nil {
		i.abort("package %s not loaded (needed for type %s)", pkgPath, name)
	}
	m := pkg.Members[name]
	t, ok := m.(*ssa.Type)
	if !ok {
		i.abort("type %s.%s not found", pkgPath, name)
	}
	return t.Type()
}

func fieldIndex(T types.Type, name string) int {
	st := T.Underlying().(*types.Struct)
	for k := 0; k < st.NumFields(); k++ {
		if st.Field(k).Name() == name {
			return k
		}
	}
	panic(fmt.Sprintf("no field %s in %v", name, T))
}

// newStruct allocates a zero struct of named type T and returns its address.
func newStruct(T types.Type) *value {
	v := zero(T)
	return &v
}

func setField(p *value, T types.Type, name string, v value) {
	(*p).(structure)[fieldIndex(T, name)] = v
}

func getField(p *value, T types.Type, name string) value {
	return (*p).(structure)[fieldIndex(T, name)]
}

// mkError builds an error value of harness-support type vxrt.Err.
func (i *interpreter) mkError(msg string) value {
	T := i.namedType(vxPkg, "Err")
	p := newStruct(T)
	setField(p, T, "Msg", msg)
	return iface{t: types.NewPointer(T), v: p}
}

func boolTerm(i *interpreter, v value) *Term {
	switch v := v.(type) {
	case bool:
		return i.tb.Bool(v)
	case *Term:
		return v
	}
	panic("boolTerm")
}

func init() {
	for k, v := range map[string]externalFn{
		"internal/bytealg.IndexByte":           extIndexByte,
		"internal/bytealg.IndexByteString":     extIndexByte,
		"internal/bytealg.LastIndexByte":       extLastIndexByte,
		"internal/bytealg.LastIndexByteString": extLastIndexByte,
		"internal/bytealg.Count":               extCountByte,
		"internal/bytealg.CountString":         extCountByte,
		"internal/bytealg.Index":               extIndexSub,
		"internal/bytealg.IndexString":         extIndexSub,
		"internal/bytealg.Equal":               extBytesEqual,
		"internal/bytealg.Compare":             extCompare,
		"internal/bytealg.CompareString":       extCompare,
		"internal/bytealg.MakeNoZero":          extMakeNoZero,
		"internal/bytealg.Cutover":             func(fr *frame, args []value) value { return 64 },
		"bytes.Equal":                          extBytesEqual,
		"(*strings.Builder).String":            extBuilderString,
		"(*strings.Builder).copyCheck":         func(fr *frame, args []value) value { return nil },
		"internal/abi.NoEscape":                func(fr *frame, args []value) value { return args[0] },
		"internal/abi.Escape":                  func(fr *frame, args []value) value { return args[0] },
		"runtime.KeepAlive":                    func(fr *frame, args []value) value { return nil },
		"runtime.Gosched":                      func(fr *frame, args []value) value { fr.i.yield(); return nil },
		"runtime.GOROOT":                       extGOROOT,
		"runtime.Caller":                       extCaller,
		"runtime.Goexit":                       extGoexit,
		"runtime.Callers":                      extCallers,
		"runtime.CallersFrames":                extCallersFrames,
		"(*runtime.Frames).Next":               extFramesNext,
		"runtime.FuncForPC":                    extFuncForPC,
		"(*runtime.Func).Name":                 extFuncName,
		"(*sync.Mutex).Lock":                   extMutexLock,
		"(*sync.Mutex).Unlock":                 extMutexUnlock,
		"(*sync.Mutex).TryLock":                nil,
		"(*sync.RWMutex).Lock":                 extRWLock,
		"(*sync.RWMutex).Unlock":               extMutexUnlock,
		"(*sync.RWMutex).RLock":                extRLock,
		"(*sync.RWMutex).RUnlock":              extRUnlock,
		"(*sync.WaitGroup).Add":                extWGAdd,
		"(*sync.WaitGroup).Done":               extWGDone,
		"(*sync.WaitGroup).Wait":               extWGWait,
		"(*sync.Once).Do":                      extOnceDo,
		"errors.Is":                            extErrorsIs,
		"unicode.IsSpace":                      extIsSpace,
		"unicode/utf8.DecodeRuneInString":      nil,
	} {
		if v != nil {
			externals[k] = v
		}
	}
}

// ---- bytealg

func byteArg(i *interpreter, v value) *Term { return byteTerm(i, v) }

func seqBytes(v value) []value {
	switch v := v.(type) {
	case []value:
		return v
	case string, symstr:
		return strBytes(v)
	}
	panic(fmt.Sprintf("seqBytes: %T", v))
}

func extIndexByte(fr *frame, args []value) value {
	i := fr.i
	s := seqBytes(args[0])
	c := byteArg(i, args[1])
	for k, b := range s {
		if i.decide(i.tb.Eq(byteTerm(i, b), c)) {
			return k
		}
	}
	return -1
}

func extLastIndexByte(fr *frame, args []value) value {
	i := fr.i
	s := seqBytes(args[0])
	c := byteArg(i, args[1])
	for k := len(s) - 1; k >= 0; k-- {
		if i.decide(i.tb.Eq(byteTerm(i, s[k]), c)) {
			return k
		}
	}
	return -1
}

func extCountByte(fr *frame, args []value) value {
	i := fr.i
	s := seqBytes(args[0])
	c := byteArg(i, args[1])
	n := 0
	for _, b := range s {
		if i.decide(i.tb.Eq(byteTerm(i, b), c)) {
			n++
		}
	}
	return n
}

func extIndexSub(fr *frame, args []value) value {
	i := fr.i
	s := seqBytes(args[0])
	sub := seqBytes(args[1])
	for k := 0; k+len(sub) <= len(s); k++ {
		if i.truth(strEqTerm(i, symstr(s[k:k+len(sub)]), symstr(sub))) {
			return k
		}
	}
	return -1
}

func extBytesEqual(fr *frame, args []value) value {
	return strEqTerm(fr.i, symstr(seqBytes(args[0])), symstr(seqBytes(args[1])))
}

func extCompare(fr *frame, args []value) value {
	i := fr.i
	a, b := symstr(seqBytes(args[0])), symstr(seqBytes(args[1]))
	if i.truth(strEqTerm(i, a, b)) {
		return 0
	}
	if i.truth(strLessTerm(i, a, b)) {
		return -1
	}
	return 1
}

func extMakeNoZero(fr *frame, args []value) value {
	n := int(asInt64(fr.i, args[0]))
	out := make([]value, n)
	for k := range out {
		out[k] = byte(0)
	}
	return out
}

func extBuilderString(fr *frame, args []value) value {
	p := args[0].(*value)
	T := fr.i.namedType("strings", "Builder")
	buf := getField(p, T, "buf").([]value)
	return mkstr(buf)
}

// ---- runtime

func extGOROOT(fr *frame, args []value) value {
	if v, ok := fr.i.path.extra["goroot_empty"]; ok && v.(bool) {
		return ""
	}
	return "/goroot"
}

// frameFile returns the file name the Caller stub reports for fr.
func frameFile(fr *frame) string {
	if fr.goexit {
		return "/goroot/src/runtime/asm_amd64.s"
	}
	if fr.trunner {
		return "/goroot/src/testing/testing.go"
	}
	if fr.fileOverride != "" {
		return fr.fileOverride
	}
	pos := fr.fn.Pos()
	if !pos.IsValid() && fr.fn.Parent() != nil {
		pos = fr.fn.Parent().Pos()
	}
	if !pos.IsValid() {
		return "<autogenerated>"
	}
	return fr.fn.Prog.Fset.Position(pos).Filename
}

// extCaller implements runtime.Caller over the interpreter's own stack:
// frame 0 is the caller of runtime.Caller. Above the harness entry there is a
// virtual frame "testing.tRunner" and then nothing.
func extCaller(fr *frame, args []value) value {
	i := fr.i
	skip := int(asInt64(i, args[0]))
	f := fr.caller // function that called runtime.Caller
	for k := 0; k < skip && f != nil; k++ {
		f = f.caller
	}
	if f != nil {
		if f.goexit {
			return tuple{i.pcFor("runtime.goexit"), frameFile(f), 1, true}
		}
		if f.trunner {
			return tuple{i.pcFor("testing.tRunner"), frameFile(f), 1, true}
		}
		pc := i.pcFor(f.fn.String())
		return tuple{pc, frameFile(f), 1, true}
	}
	// count depth to see how far beyond we are
	depth := 0
	spawned := false
	for g := fr.caller; g != nil; g = g.caller {
		depth++
		spawned = spawned || g.goexit
		if g.trunner {
			// beyond a sub-test's tRunner there is only runtime.goexit
			if skip == depth {
				return tuple{i.pcFor("runtime.goexit"), "/goroot/src/runtime/asm_amd64.s", 1, true}
			}
			return tuple{uintptr(0), "", 0, false}
		}
	}
	if spawned {
		// a goroutine started with `go`: nothing above runtime.goexit
		return tuple{uintptr(0), "", 0, false}
	}
	if skip == depth {
		return tuple{i.pcFor("testing.tRunner"), "/goroot/src/testing/testing.go", 1, true}
	}
	return tuple{uintptr(0), "", 0, false}
}

// extGoexit: runtime.Goexit on a spawned thread (on the harness's own thread it would end the
// harness, which no harness wants: reported as inconclusive).
func extGoexit(fr *frame, args []value) value {
	i := fr.i
	if i.path.sched == nil || i.path.sched.cur.id == 0 {
		i.abort("runtime.Goexit on the harness's main thread")
	}
	panic(goexitSignal{})
}

func (i *interpreter) pcFor(name string) uintptr {
	return i.pcForFile(name, "")
}

// pcForFile returns a stand-in program counter for (function, file).
func (i *interpreter) pcForFile(name, file string) uintptr {
	tab, _ := i.path.extra["pctab"].([]string)
	files, _ := i.path.extra["pcfiles"].([]string)
	for k, n := range tab {
		if n == name && files[k] == file {
			return uintptr(k + 1)
		}
	}
	tab = append(tab, name)
	files = append(files, file)
	i.path.extra["pctab"] = tab
	i.path.extra["pcfiles"] = files
	return uintptr(len(tab))
}

// extCallers implements runtime.Callers over the interpreter's stack
// (skip 0 = Callers itself, 1 = its caller, ...), followed by the virtual
// testing.tRunner and runtime.goexit frames.
func extCallers(fr *frame, args []value) value {
	i := fr.i
	skip := int(asInt64(i, args[0]))
	pcs := args[1].([]value)
	var all []uintptr
	all = append(all, i.pcForFile("runtime.Callers", "/goroot/src/runtime/extern.go"))
	spawned := false
	for f := fr.caller; f != nil; f = f.caller {
		if f.goexit {
			spawned = true
			all = append(all, i.pcForFile("runtime.goexit", frameFile(f)))
			continue
		}
		if f.trunner {
			spawned = true
			all = append(all, i.pcForFile("testing.tRunner", frameFile(f)))
			all = append(all, i.pcForFile("runtime.goexit", "/goroot/src/runtime/asm_amd64.s"))
			continue
		}
		all = append(all, i.pcForFile(f.fn.String(), frameFile(f)))
	}
	if !spawned {
		all = append(all, i.pcForFile("testing.tRunner", "/goroot/src/testing/testing.go"))
		all = append(all, i.pcForFile("runtime.goexit", "/goroot/src/runtime/asm_amd64.s"))
	}
	n := 0
	for k := skip; k < len(all) && n < len(pcs); k++ {
		pcs[n] = all[k]
		n++
	}
	return n
}

func extCallersFrames(fr *frame, args []value) value {
	i := fr.i
	T := i.namedType("runtime", "Frames")
	p := newStruct(T)
	var pcs []uintptr
	for _, v := range args[0].([]value) {
		pcs = append(pcs, uintptr(asInt64(i, v)))
	}
	i.path.extra[fmt.Sprintf("frames:%p", p)] = &framesState{pcs: pcs}
	return p
}

type framesState struct {
	pcs []uintptr
	pos int
}

func extFramesNext(fr *frame, args []value) value {
	i := fr.i
	p := args[0].(*value)
	st, _ := i.path.extra[fmt.Sprintf("frames:%p", p)].(*framesState)
	FT := i.namedType("runtime", "Frame")
	f := zero(FT).(structure)
	if st == nil || st.pos >= len(st.pcs) {
		return tuple{f, false}
	}
	pc := st.pcs[st.pos]
	st.pos++
	tab, _ := i.path.extra["pctab"].([]string)
	files, _ := i.path.extra["pcfiles"].([]string)
	if pc >= 1 && int(pc) <= len(tab) {
		f[fieldIndex(FT, "PC")] = pc
		f[fieldIndex(FT, "Function")] = tab[pc-1]
		f[fieldIndex(FT, "File")] = files[pc-1]
		f[fieldIndex(FT, "Line")] = 1
	}
	return tuple{f, st.pos < len(st.pcs)}
}

func extFuncForPC(fr *frame, args []value) value {
	i := fr.i
	pc := int(asInt64(i, args[0]))
	tab, _ := i.path.extra["pctab"].([]string)
	if pc <= 0 || pc > len(tab) {
		return (*value)(nil)
	}
	T := i.namedType("runtime", "Func")
	p := newStruct(T)
	i.funcNames[p] = tab[pc-1]
	return p
}

func extFuncName(fr *frame, args []value) value {
	p := args[0].(*value)
	if p == nil {
		return ""
	}
	name := fr.i.funcNames[p]
	// runtime reports methods and closures in its own syntax; only the
	// test-runner name is relied upon by go-snaps.
	return name
}

// ---- sync

func (i *interpreter) lockOf(p *value) *lockState {
	l := i.path.locks[p]
	if l == nil {
		l = &lockState{readers: map[int]int{}}
		i.path.locks[p] = l
	}
	return l
}

func (i *interpreter) curThread() int {
	if i.path.sched == nil {
		return 0
	}
	return i.path.sched.cur.id
}

func extMutexLock(fr *frame, args []value) value {
	i := fr.i
	l := i.lockOf(args[0].(*value))
	i.yield()
	i.blockWhile(func() bool { return l.writer != 0 || len(l.readers) > 0 })
	l.writer = i.curThread() + 1
	return nil
}

// extRWLock: a writer announces itself before it blocks; from then on new
// readers block too (sync.RWMutex prefers waiting writers), which is what makes
// recursive read locking deadlock-prone.
func extRWLock(fr *frame, args []value) value {
	i := fr.i
	l := i.lockOf(args[0].(*value))
	i.yield()
	l.waitingWriters++
	i.blockWhile(func() bool { return l.writer != 0 || len(l.readers) > 0 })
	l.waitingWriters--
	l.writer = i.curThread() + 1
	return nil
}

func extMutexUnlock(fr *frame, args []value) value {
	i := fr.i
	l := i.lockOf(args[0].(*value))
	if l.writer == 0 {
		panic(targetPanic{"fatal error: sync: unlock of unlocked mutex"})
	}
	l.writer = 0
	i.yield()
	return nil
}

func extRLock(fr *frame, args []value) value {
	i := fr.i
	l := i.lockOf(args[0].(*value))
	i.yield()
	i.blockWhile(func() bool { return l.writer != 0 || l.waitingWriters > 0 })
	l.readers[i.curThread()]++
	return nil
}

func extRUnlock(fr *frame, args []value) value {
	i := fr.i
	l := i.lockOf(args[0].(*value))
	t := i.curThread()
	if l.readers[t] == 0 {
		// released by another goroutine than the one that acquired: allowed for RWMutex
		for k := range l.readers {
			t = k
			break
		}
		if l.readers[t] == 0 {
			panic(targetPanic{"fatal error: sync: RUnlock of unlocked RWMutex"})
		}
	}
	l.readers[t]--
	if l.readers[t] == 0 {
		delete(l.readers, t)
	}
	i.yield()
	return nil
}

func (i *interpreter) wgOf(p *value) *wgState {
	w := i.path.wgs[p]
	if w == nil {
		w = &wgState{}
		i.path.wgs[p] = w
	}
	return w
}

func extWGAdd(fr *frame, args []value) value {
	w := fr.i.wgOf(args[0].(*value))
	w.n += int(asInt64(fr.i, args[1]))
	if w.n < 0 {
		panic(targetPanic{"sync: negative WaitGroup counter"})
	}
	return nil
}

func extWGDone(fr *frame, args []value) value {
	w := fr.i.wgOf(args[0].(*value))
	w.n--
	if w.n < 0 {
		panic(targetPanic{"sync: negative WaitGroup counter"})
	}
	return nil
}

func extWGWait(fr *frame, args []value) value {
	i := fr.i
	w := i.wgOf(args[0].(*value))
	i.blockWhile(func() bool { return w.n > 0 })
	return nil
}

func extOnceDo(fr *frame, args []value) value {
	i := fr.i
	p := args[0].(*value)
	key := fmt.Sprintf("once:%p", p)
	if i.path.extra[key] != nil {
		return nil
	}
	i.path.extra[key] = true
	call(i, fr, fr.callpos, args[1], nil)
	return nil
}

// ---- errors

// extErrorsIs is errors.Is without reflectlite: the chain is walked through
// Unwrap() error methods; comparability is assumed for the error types that
// occur (pointers and small structs).
func extErrorsIs(fr *frame, args []value) value {
	i := fr.i
	err, target := args[0].(iface), args[1].(iface)
	errT := types.Universe.Lookup("error").Type()
	for depth := 0; depth < 50; depth++ {
		if err.t == nil {
			return target.t == nil
		}
		if target.t != nil && sameType(err.t, target.t) && comparableType(err.t) && equals(i, err.t, err.v, target.v) {
			return true
		}
		// Is(target) bool method
		if m := findMethod(i, err.t, "Is"); m != nil && m.Signature.Params().Len() == 1 && m.Signature.Results().Len() == 1 {
			r := call(i, fr, fr.callpos, m, []value{err.v, target})
			if i.truth(r) {
				return true
			}
		}
		m := findMethod(i, err.t, "Unwrap")
		if m == nil {
			return false
		}
		if m.Signature.Results().Len() != 1 || !types.Identical(m.Signature.Results().At(0).Type(), errT) {
			i.abort("errors.Is: Unwrap() []error is not supported")
		}
		err = call(i, fr, fr.callpos, m, []value{err.v}).(iface)
	}
	i.abort("errors.Is: chain too long")
	return false
}

func comparableType(t types.Type) bool { return types.Comparable(t) }

func findMethod(i *interpreter, t types.Type, name string) *ssa.Function {
	ms := i.prog.MethodSets.MethodSet(t)
	for k := 0; k < ms.Len(); k++ {
		sel := ms.At(k)
		if sel.Obj().Name() == name {
			return i.prog.MethodValue(sel)
		}
	}
	return nil
}

// extIsSpace: unicode.IsSpace on a possibly symbolic rune (White_Space property).
func extIsSpace(fr *frame, args []value) value {
	i := fr.i
	t, ok := args[0].(*Term)
	if !ok {
		r := args[0].(int32)
		switch r {
		case '\t', '\n', '\v', '\f', '\r', ' ', 0x85, 0xA0, 0x1680, 0x2028, 0x2029, 0x202f, 0x205f, 0x3000:
			return true
		}
		return r >= 0x2000 && r <= 0x200a
	}
	tb := i.tb
	c := tb.ff
	for _, r := range []uint64{'\t', '\n', '\v', '\f', '\r', ' ', 0x85, 0xA0, 0x1680, 0x2028, 0x2029, 0x202f, 0x205f, 0x3000} {
		c = tb.Or(c, tb.Eq(t, tb.BV(32, r)))
	}
	c = tb.Or(c, tb.And(tb.Bin(opUle, tb.BV(32, 0x2000), t), tb.Bin(opUle, t, tb.BV(32, 0x200a))))
	return norm(types.Typ[types.Bool], c)
}
