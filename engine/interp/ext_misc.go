package interp

// Environment stubs (class C): flag, regexp, go/parser, kr/pretty,
// encoding/json, goccy/go-yaml, diffmatchpatch, ciinfo, build info.
// Each has a written contract; anything outside it is inconclusive.

import (
	"bytes"
	"encoding/json"
	"fmt"
	"go/types"
	"io"
	"regexp"
	"strings"
	"text/tabwriter"
)

const (
	dmpPkg    = "github.com/gkampitakis/go-diff/diffmatchpatch"
	yamlPkg   = "github.com/goccy/go-yaml"
	prettyPkg = "github.com/kr/pretty"
)

func init() {
	for k, v := range map[string]externalFn{
		"flag.Lookup":                                          extFlagLookup,
		"regexp.MatchString":                                   extRegexpMatchString,
		"regexp.Compile":                                       extRegexpCompile,
		"regexp.MustCompile":                                   extRegexpMustCompile,
		"(*regexp.Regexp).MatchString":                         extRegexpObjMatchString,
		"(*regexp.Regexp).Match":                               extRegexpObjMatch,
		"(*regexp.Regexp).String":                              extRegexpObjString,
		"go/token.NewFileSet":                                  func(fr *frame, args []value) value { return newStruct(fr.i.namedType("go/token", "FileSet")) },
		"go/parser.ParseFile":                                  extParseFile,
		prettyPkg + ".Sprint":                                  extPrettySprint,
		"encoding/json.Marshal":                                extJSONMarshal,
		"encoding/json.newScanner":                             extJSONNewScanner,
		"encoding/json.freeScanner":                            func(fr *frame, args []value) value { return nil },
		yamlPkg + ".Unmarshal":                                 extYAMLUnmarshal,
		yamlPkg + ".MarshalWithOptions":                        extYAMLMarshal,
		yamlPkg + ".Indent":                                    func(fr *frame, args []value) value { return (*ssaFuncNil)(nil).v() },
		yamlPkg + ".IndentSequence":                            func(fr *frame, args []value) value { return (*ssaFuncNil)(nil).v() },
		dmpPkg + ".New":                                        func(fr *frame, args []value) value { return newStruct(fr.i.namedType(dmpPkg, "DiffMatchPatch")) },
		"(*" + dmpPkg + ".DiffMatchPatch).DiffMain":            extDiffMain,
		"(*" + dmpPkg + ".DiffMatchPatch).DiffCleanupSemantic": func(fr *frame, args []value) value { return args[1] },
		"runtime/debug.ReadBuildInfo":                          func(fr *frame, args []value) value { return tuple{(*value)(nil), false} },
	} {
		externals[k] = v
	}
}

// extJSONNewScanner: encoding/json.newScanner without the sync.Pool.
func extJSONNewScanner(fr *frame, args []value) value {
	i := fr.i
	T := i.namedType("encoding/json", "scanner")
	p := newStruct(T)
	m := findMethod(i, types.NewPointer(T), "reset")
	if m == nil {
		i.abort("encoding/json: scanner.reset not found")
	}
	call(i, fr, fr.callpos, m, []value{p})
	return p
}

type ssaFuncNil struct{}

// v returns a nil function value (used for option constructors whose result
// is only passed on to other stubs).
func (*ssaFuncNil) v() value { return zero(types.NewSignatureType(nil, nil, nil, nil, nil, false)) }

// ---- flag

func extFlagLookup(fr *frame, args []value) value {
	i := fr.i
	name := labelOf(args[0])
	var val value = ""
	if v, ok := i.path.extra["flag:"+name]; ok {
		val = v
	} else if name == "test.count" {
		val = "1"
	}
	FT := i.namedType("flag", "Flag")
	ST := i.namedType("flag", "stringValue")
	cell := new(value)
	*cell = val
	p := newStruct(FT)
	setField(p, FT, "Name", name)
	setField(p, FT, "Value", iface{t: types.NewPointer(ST), v: cell})
	return p
}

// ---- regexp

// safeLiteralByte: bytes for which a regexp pattern byte is a literal.
func safeLiteralByte(b byte) bool {
	return b >= 'a' && b <= 'z' || b >= 'A' && b <= 'Z' || b >= '0' && b <= '9' || b == '_' || b == '/' || b == ' ' || b == '-'
}

func (i *interpreter) inSafeClass(t *Term) *Term {
	tb := i.tb
	rng := func(lo, hi byte) *Term {
		return tb.And(tb.Bin(opUle, tb.BV(8, uint64(lo)), t), tb.Bin(opUle, t, tb.BV(8, uint64(hi))))
	}
	c := tb.Or(rng('a', 'z'), tb.Or(rng('A', 'Z'), rng('0', '9')))
	for _, b := range []byte{'_', '/', ' ', '-'} {
		c = tb.Or(c, tb.Eq(t, tb.BV(8, uint64(b))))
	}
	return c
}

// extRegexpMatchString: regexp.MatchString(pattern, s).
// Contract: concrete pattern and concrete s -> the real regexp package.
// Otherwise the pattern must have the form [^]literal[$] with anchors
// concrete and literal bytes in [A-Za-z0-9_/ -] (checked, not assumed); the
// result is then ==, HasPrefix, HasSuffix or Contains, which is exact.
func extRegexpMatchString(fr *frame, args []value) value {
	return fr.i.regexpMatch(args[0], args[1])
}

// regexp.Compile / MustCompile: the compiled object remembers its pattern; an
// invalid concrete pattern yields the real error, a symbolic pattern is checked
// to stay in the literal class when it is matched.
func extRegexpCompile(fr *frame, args []value) value {
	i := fr.i
	if ps, ok := args[0].(string); ok {
		if _, err := regexp.Compile(ps); err != nil {
			return tuple{(*value)(nil), i.mkError(err.Error())}
		}
	}
	T := i.namedType("regexp", "Regexp")
	p := newStruct(T)
	i.path.extra[fmt.Sprintf("regexp:%p", p)] = args[0]
	return tuple{p, nilErr()}
}

func extRegexpMustCompile(fr *frame, args []value) value {
	r := extRegexpCompile(fr, args).(tuple)
	if r[0].(*value) == nil {
		panic(targetPanic{"regexp: Compile(" + toString(args[0]) + "): invalid pattern"})
	}
	return r[0]
}

func (i *interpreter) regexpPattern(re value) value {
	p, _ := re.(*value)
	if p == nil {
		panic(targetPanic{"runtime error: invalid memory address or nil pointer dereference (nil *regexp.Regexp)"})
	}
	pat, ok := i.path.extra[fmt.Sprintf("regexp:%p", p)]
	if !ok {
		i.abort("regexp stub: Regexp value not produced by Compile/MustCompile")
	}
	return pat
}

func extRegexpObjMatchString(fr *frame, args []value) value {
	return fr.i.regexpMatch(fr.i.regexpPattern(args[0]), args[1]).(tuple)[0]
}

func extRegexpObjMatch(fr *frame, args []value) value {
	return fr.i.regexpMatch(fr.i.regexpPattern(args[0]), mkstr(args[1].([]value))).(tuple)[0]
}

func extRegexpObjString(fr *frame, args []value) value {
	return fr.i.regexpPattern(args[0])
}

func (i *interpreter) regexpMatch(pat, s value) value {
	if ps, ok := pat.(string); ok {
		if ss, ok := s.(string); ok {
			m, err := regexp.MatchString(ps, ss)
			if err != nil {
				return tuple{false, i.mkError(err.Error())}
			}
			return tuple{m, nilErr()}
		}
	}
	if ps, ok := pat.(string); ok {
		// concrete pattern, symbolic subject: NFA simulation over terms
		if t, ok := i.regexpNFA(ps, strBytes(s)); ok {
			return tuple{norm(types.Typ[types.Bool], t), nilErr()}
		}
		_, err := regexp.Compile(ps)
		return tuple{false, i.mkError(err.Error())}
	}
	pb := strBytes(pat)
	pre, suf := false, false
	if len(pb) > 0 {
		if b, ok := pb[0].(byte); ok && b == '^' {
			pre = true
			pb = pb[1:]
		}
	}
	if len(pb) > 0 {
		if b, ok := pb[len(pb)-1].(byte); ok && b == '$' {
			suf = true
			pb = pb[:len(pb)-1]
		}
	}
	// an end anchor followed by more literal text, or a start anchor preceded by
	// literal text, can never match (no multi-line flag): exact, no assumption
	for k, b := range pb {
		if c, ok := b.(byte); ok && (c == '$' && k < len(pb)-1 || c == '^' && k > 0) {
			rest := pb[k+1:]
			if c == '^' {
				rest = pb[:k]
			}
			allSafe := len(rest) > 0
			for _, r := range rest {
				switch r := r.(type) {
				case byte:
					allSafe = allSafe && safeLiteralByte(r)
				case *Term:
					allSafe = allSafe && !i.decide(i.tb.Not(i.inSafeClass(r)))
				}
			}
			if allSafe {
				return tuple{false, nilErr()}
			}
		}
	}
	for _, b := range pb {
		switch b := b.(type) {
		case byte:
			if !safeLiteralByte(b) {
				i.abort("regexp stub: pattern byte %q outside the modelled literal class", b)
			}
		case *Term:
			if !i.decide(i.inSafeClass(b)) {
				i.abort("regexp stub: symbolic pattern byte may leave the modelled literal class")
			}
		}
	}
	lit := symstr(pb)
	sb := strBytes(s)
	tb := i.tb
	eqAt := func(off int) *Term {
		return boolTerm(i, strEqTerm(i, symstr(sb[off:off+len(lit)]), lit))
	}
	var res *Term
	switch {
	case len(lit) > len(sb):
		res = tb.ff
	case pre && suf:
		if len(lit) != len(sb) {
			res = tb.ff
		} else {
			res = eqAt(0)
		}
	case pre:
		res = eqAt(0)
	case suf:
		res = eqAt(len(sb) - len(lit))
	default:
		res = tb.ff
		for off := 0; off+len(lit) <= len(sb); off++ {
			res = tb.Or(res, eqAt(off))
		}
	}
	return tuple{norm(types.Typ[types.Bool], res), nilErr()}
}

// ---- go/parser

// extParseFile: parser.ParseFile(fset, filename, src, mode).
// Contract: the harness declares which paths hold parseable test sources and
// the names of their top-level functions (vxrt.TestSources); any other path
// fails to parse.
func extParseFile(fr *frame, args []value) value {
	i := fr.i
	path := args[1]
	srcs, _ := i.path.extra["sources"].(map[string][]value)
	FileT := i.namedType("go/ast", "File")
	var names []value
	found := false
	// deterministic order
	keys := make([]string, 0, len(srcs))
	for k := range srcs {
		keys = append(keys, k)
	}
	sortStrings(keys)
	for _, k := range keys {
		if i.truth(strEqTerm(i, path, k)) {
			names = srcs[k]
			found = true
			break
		}
	}
	if !found {
		return tuple{(*value)(nil), i.mkError("open " + toString(path) + ": no such file")}
	}
	FD := i.namedType("go/ast", "FuncDecl")
	ID := i.namedType("go/ast", "Ident")
	var decls []value
	for _, n := range names {
		id := newStruct(ID)
		setField(id, ID, "Name", n)
		fd := newStruct(FD)
		setField(fd, FD, "Name", id)
		decls = append(decls, iface{t: types.NewPointer(FD), v: fd})
	}
	f := newStruct(FileT)
	setField(f, FileT, "Decls", decls)
	return tuple{f, nilErr()}
}

func sortStrings(s []string) {
	for a := 1; a < len(s); a++ {
		for b := a; b > 0 && s[b] < s[b-1]; b-- {
			s[b], s[b-1] = s[b-1], s[b]
		}
	}
}

// ---- kr/pretty

// extPrettySprint: pretty.Sprint(v).
// Contract: defined only for a single operand of dynamic type string that
// contains none of the bytes the library's tabwriter rewrites (\t \v \f \xff);
// on that domain the formatted text is the string itself. (Replays run the
// real library.)
func extPrettySprint(fr *frame, args []value) value {
	i := fr.i
	ops := variadic(args[0])
	if len(ops) != 1 {
		i.abort("pretty.Sprint stub: exactly one operand is modelled")
	}
	itf := ops[0].(iface)
	if itf.t == nil {
		i.abort("pretty.Sprint stub: nil operand")
	}
	b, ok := itf.t.Underlying().(*types.Basic)
	if !ok || b.Kind() != types.String {
		i.abort("pretty.Sprint stub: operand of type %s is not modelled (reflection)", itf.t)
	}
	if gs, isGo := itf.v.(string); isGo && strings.ContainsAny(gs, "\t\v\f\xff") {
		// a concrete text with bytes the tabwriter rewrites: the library writes a string operand
		// through tabwriter.NewWriter(f, 4, 4, 1, ' ', 0) (formatter.Format, printValue with
		// quote=false), which the host's text/tabwriter reproduces exactly
		var buf bytes.Buffer
		w := tabwriter.NewWriter(&buf, 4, 4, 1, ' ', 0)
		io.WriteString(w, gs)
		w.Flush()
		return buf.String()
	}
	for _, c := range strBytes(itf.v) {
		switch c := c.(type) {
		case byte:
			if c == '\t' || c == '\v' || c == '\f' || c == 0xff {
				i.abort("pretty.Sprint stub: tabwriter control byte in operand")
			}
		case *Term:
			bad := i.tb.ff
			for _, x := range []byte{'\t', '\v', '\f', 0xff} {
				bad = i.tb.Or(bad, i.tb.Eq(c, i.tb.BV(8, uint64(x))))
			}
			if i.decide(bad) {
				i.abort("pretty.Sprint stub: operand may contain a tabwriter control byte (add the assumption to the harness)")
			}
		}
	}
	return itf.v
}

// ---- encoding/json

// extJSONMarshal: json.Marshal(v).
// Contract: only the harness type vxrt.JSONValue{Doc} is modelled; the result
// is Doc if gjson.Valid(Doc) (decided by the interpreted library) and an error
// otherwise. The harness must keep Doc free of insignificant white space and
// of the bytes json.Marshal escapes (<, >, &), so that the real Marshal of a
// json.Marshaler returning Doc yields Doc.
func extJSONMarshal(fr *frame, args []value) value {
	i := fr.i
	itf := args[0].(iface)
	if itf.t == nil {
		return tuple{strBytes("null"), nilErr()}
	}
	if n, ok := itf.t.(*types.Named); ok && n.Obj().Name() == "JSONValue" && n.Obj().Pkg().Path() == vxPkg {
		doc := itf.v.(structure)[0]
		valid := i.callByName("github.com/tidwall/gjson", "Valid", []value{doc})
		if i.truth(valid) {
			out := make([]value, strLen(doc))
			copy(out, strBytes(doc))
			return tuple{out, nilErr()}
		}
		return tuple{[]value(nil), i.mkError("json: error calling MarshalJSON for type vxrt.JSONValue: invalid character")}
	}
	// json.RawMessage: Marshal validates (and compacts) the raw bytes; the harness keeps them compact
	if n, ok := itf.t.(*types.Named); ok && n.Obj().Name() == "RawMessage" && n.Obj().Pkg() != nil && n.Obj().Pkg().Path() == "encoding/json" {
		raw := itf.v.([]value)
		if raw == nil {
			return tuple{strBytes("null"), nilErr()}
		}
		valid := i.callByName("github.com/tidwall/gjson", "ValidBytes", []value{raw})
		if i.truth(valid) {
			out := make([]value, len(raw))
			copy(out, raw)
			return tuple{out, nilErr()}
		}
		return tuple{[]value(nil), i.mkError("json: error calling MarshalJSON for type json.RawMessage: invalid character")}
	}
	// concrete scalars: the host's encoding/json
	var gv interface{}
	okv := true
	switch v := itf.v.(type) {
	case bool, int, int8, int16, int32, int64, uint, uint8, uint16, uint32, uint64, float32, float64, string:
		gv = v
	default:
		okv = false
	}
	if okv {
		if _, isBasic := itf.t.Underlying().(*types.Basic); isBasic {
			b, err := json.Marshal(gv)
			if err != nil {
				return tuple{[]value(nil), i.mkError(err.Error())}
			}
			return tuple{strBytes(string(b)), nilErr()}
		}
	}
	// concrete trees of map[string]any / []any / scalars (what a decoded document is made of)
	if h, ok := toHostJSON(itf); ok {
		b, err := json.Marshal(h)
		if err != nil {
			return tuple{[]value(nil), i.mkError(err.Error())}
		}
		return tuple{strBytes(string(b)), nilErr()}
	}
	i.abort("json.Marshal stub: operand of type %s is not modelled (reflection)", itf.t)
	return nil
}

// toHostJSON rebuilds a host value from an interface value holding nil, a concrete basic scalar,
// a []any or a map[string]any of such; ok is false for anything else (symbolic leaves included).
func toHostJSON(itf iface) (any, bool) {
	if itf.t == nil {
		return nil, true
	}
	switch u := itf.t.Underlying().(type) {
	case *types.Basic:
		if _, named := itf.t.(*types.Named); named {
			return nil, false
		}
		switch v := itf.v.(type) {
		case bool, int, int64, float64, string:
			return v, true
		}
	case *types.Slice:
		el, isI := u.Elem().Underlying().(*types.Interface)
		xs, isS := itf.v.([]value)
		if _, named := itf.t.(*types.Named); named || !isI || el.NumMethods() != 0 || !isS {
			return nil, false
		}
		if xs == nil {
			return []any(nil), true
		}
		out := make([]any, len(xs))
		for k := range xs {
			e, _ := xs[k].(iface)
			h, ok := toHostJSON(e)
			if !ok {
				return nil, false
			}
			out[k] = h
		}
		return out, true
	case *types.Map:
		el, isI := u.Elem().Underlying().(*types.Interface)
		kb, isB := u.Key().(*types.Basic)
		m, isM := itf.v.(*omap)
		if _, named := itf.t.(*types.Named); named || !isI || el.NumMethods() != 0 || !isB || kb.Kind() != types.String || !isM {
			return nil, false
		}
		if m == nil {
			return map[string]any(nil), true
		}
		out := map[string]any{}
		for k := range m.keys {
			if m.dead[k] {
				continue
			}
			ks, isStr := m.keys[k].(string)
			e, _ := m.vals[k].(iface)
			h, ok := toHostJSON(e)
			if !isStr || !ok {
				return nil, false
			}
			out[ks] = h
		}
		return out, true
	}
	return nil, false
}

// ---- goccy/go-yaml

func bytesKey(bs []value) string {
	var sb strings.Builder
	for _, b := range bs {
		switch b := b.(type) {
		case byte:
			fmt.Fprintf(&sb, "%02x.", b)
		case *Term:
			fmt.Fprintf(&sb, "t%d.", b.id)
		}
	}
	return sb.String()
}

// extYAMLUnmarshal: yaml.Unmarshal(data, &out).
// Contract: the library is an oracle — whether a document is valid YAML is an
// arbitrary (symbolic) Boolean, the same for the same bytes within a run.
func extYAMLUnmarshal(fr *frame, args []value) value {
	i := fr.i
	data := args[0].([]value)
	key := "yamlvalid:" + bytesKey(data)
	var b *Term
	if t, ok := i.path.extra[key].(*Term); ok {
		b = t
	} else {
		b = i.freshBool("yaml-valid")
		i.path.extra[key] = b
		var ts []*Term
		for _, d := range data {
			ts = append(ts, byteTerm(i, d))
		}
		i.path.inputs = append(i.path.inputs, InputRec{Kind: "yamlvalid", Label: "yaml.Unmarshal accepts", Terms: append([]*Term{b}, ts...)})
	}
	if v, ok := i.path.extra["yamlassume"]; ok {
		i.assume(norm(types.Typ[types.Bool], i.tb.Eq(b, i.tb.Bool(v.(bool)))))
	}
	if !i.decide(b) {
		return i.mkError("[1:1] yaml: invalid document (oracle)")
	}
	// Decoding into anything narrower than an empty interface can fail for a valid document (a
	// sequence does not fit a map): a second oracle, per document and target type, again checked
	// against the real library when a counterexample is replayed.
	if target, ok := args[1].(iface); ok && target.t != nil {
		if pt, isPtr := target.t.(*types.Pointer); isPtr {
			it, isIface := pt.Elem().Underlying().(*types.Interface)
			if !isIface || it.NumMethods() != 0 {
				tname := pt.Elem().String()
				fkey := "yamlfits:" + tname + ":" + bytesKey(data)
				var f *Term
				if t, ok := i.path.extra[fkey].(*Term); ok {
					f = t
				} else {
					f = i.freshBool("yaml-fits")
					i.path.extra[fkey] = f
					var ts []*Term
					for _, d := range data {
						ts = append(ts, byteTerm(i, d))
					}
					i.path.inputs = append(i.path.inputs, InputRec{Kind: "yamlfits", Label: tname, Terms: append([]*Term{f}, ts...)})
				}
				if !i.decide(f) {
					return i.mkError("[1:1] yaml: value of this document was used where " + tname + " is expected (oracle)")
				}
			}
		}
	}
	return nilErr()
}

func extYAMLMarshal(fr *frame, args []value) value {
	fr.i.abort("yaml.MarshalWithOptions is not modelled (reflection-based encoder)")
	return nil
}

// ---- diffmatchpatch

// extDiffMain: dmp.DiffMain(a, b, false).
// Contract (from reading DiffMainRunes): both texts are converted to []rune
// (invalid UTF-8 becomes U+FFFD). If the rune sequences are equal the result
// is [{Equal, string(runes)}] (empty for empty input). Otherwise the real
// result contains at least one edit; the stub returns [{Delete,a},{Insert,b}],
// which is faithful for the only thing go-snaps branches on.
func extDiffMain(fr *frame, args []value) value {
	i := fr.i
	a, b := args[1], args[2]
	DT := i.namedType(dmpPkg, "Diff")
	OT := i.namedType(dmpPkg, "Operation")
	_ = OT
	mk := func(op int8, text value) value {
		d := zero(DT).(structure)
		d[fieldIndex(DT, "Type")] = op
		d[fieldIndex(DT, "Text")] = text
		return d
	}
	ab, bb := strBytes(a), strBytes(b)
	// fast path: all bytes ASCII -> rune equality is byte equality
	ascii := i.tb.tt
	for _, x := range append(append([]value{}, ab...), bb...) {
		switch x := x.(type) {
		case byte:
			if x >= 0x80 {
				ascii = i.tb.ff
			}
		case *Term:
			ascii = i.tb.And(ascii, i.tb.Bin(opUlt, x, i.tb.BV(8, 0x80)))
		}
	}
	var equal bool
	var eqText value = a
	if i.decide(ascii) {
		equal = i.truth(strEqTerm(i, a, b))
	} else {
		ra := conv(i, types.NewSlice(types.Typ[types.Rune]), types.Typ[types.String], a).([]value)
		rb := conv(i, types.NewSlice(types.Typ[types.Rune]), types.Typ[types.String], b).([]value)
		equal = len(ra) == len(rb)
		if equal {
			for k := range ra {
				if !equals(i, types.Typ[types.Rune], ra[k], rb[k]) {
					equal = false
					break
				}
			}
		}
		if equal {
			eqText = conv(i, types.Typ[types.String], types.NewSlice(types.Typ[types.Rune]), ra)
		}
	}
	if equal {
		if strLen(a) == 0 {
			return []value{}
		}
		return []value{mk(0, eqText)}
	}
	return []value{mk(-1, a), mk(1, b)}
}
