package interp

// Symbolic cases of the SSA operators: arithmetic/comparison on *Term,
// string operations on symstr, conversions.

import (
	"fmt"
	"go/token"
	"go/types"
	"golang.org/x/tools/go/ssa"
	"unicode/utf8"
)

func mustDeref(t types.Type) types.Type {
	if p, ok := t.Underlying().(*types.Pointer); ok {
		return p.Elem()
	}
	panic(fmt.Sprintf("mustDeref: not a pointer: %v", t))
}

// widthOf returns the bit width of a basic type (0 for bool), or -1.
func widthOf(t types.Type) int {
	b, ok := t.Underlying().(*types.Basic)
	if !ok {
		return -1
	}
	switch b.Kind() {
	case types.Bool, types.UntypedBool:
		return 0
	case types.Int8, types.Uint8:
		return 8
	case types.Int16, types.Uint16:
		return 16
	case types.Int32, types.Uint32, types.UntypedRune:
		return 32
	case types.Int, types.Uint, types.Int64, types.Uint64, types.Uintptr, types.UntypedInt:
		return 64
	}
	return -1
}

func isSigned(t types.Type) bool {
	b, ok := t.Underlying().(*types.Basic)
	if !ok {
		return false
	}
	return b.Info()&types.IsInteger != 0 && b.Info()&types.IsUnsigned == 0
}

// concBits returns the bits of a concrete scalar.
func concBits(x value) (uint64, bool) {
	switch x := x.(type) {
	case bool:
		if x {
			return 1, true
		}
		return 0, true
	case int:
		return uint64(x), true
	case int8:
		return uint64(x), true
	case int16:
		return uint64(x), true
	case int32:
		return uint64(x), true
	case int64:
		return uint64(x), true
	case uint:
		return uint64(x), true
	case uint8:
		return uint64(x), true
	case uint16:
		return uint64(x), true
	case uint32:
		return uint64(x), true
	case uint64:
		return x, true
	case uintptr:
		return uint64(x), true
	}
	return 0, false
}

// toTerm lifts a scalar value to a term of width w.
func toTerm(i *interpreter, x value, w int) *Term {
	if t, ok := x.(*Term); ok {
		if t.w != w {
			panic(fmt.Sprintf("toTerm: width %d, want %d (%s)", t.w, w, t))
		}
		return t
	}
	v, ok := concBits(x)
	if !ok {
		panic(fmt.Sprintf("toTerm: not a scalar: %T", x))
	}
	if w == 0 {
		return i.tb.Bool(v != 0)
	}
	return i.tb.BV(w, v)
}

// fromBits builds a concrete value of basic type t from bits.
func fromBits(t types.Type, v uint64) value {
	switch t.Underlying().(*types.Basic).Kind() {
	case types.Bool, types.UntypedBool:
		return v != 0
	case types.Int, types.UntypedInt:
		return int(v)
	case types.Int8:
		return int8(v)
	case types.Int16:
		return int16(v)
	case types.Int32, types.UntypedRune:
		return int32(v)
	case types.Int64:
		return int64(v)
	case types.Uint:
		return uint(v)
	case types.Uint8:
		return uint8(v)
	case types.Uint16:
		return uint16(v)
	case types.Uint32:
		return uint32(v)
	case types.Uint64:
		return uint64(v)
	case types.Uintptr:
		return uintptr(v)
	}
	panic(fmt.Sprintf("fromBits: %v", t))
}

// norm turns constant terms back into concrete Go values of type t.
func norm(t types.Type, x *Term) value {
	if x.isConst() {
		return fromBits(t, func() uint64 {
			if x.w == 0 || !isSigned(t) {
				return x.val
			}
			return uint64(sext64(x.val, x.w))
		}())
	}
	return x
}

func symBinop(i *interpreter, op token.Token, t types.Type, x, y value) (value, bool) {
	_, xt := x.(*Term)
	_, yt := y.(*Term)
	_, xs := x.(symstr)
	_, ys := y.(symstr)
	if xs || ys {
		return symStrBinop(i, op, x, y), true
	}
	if !xt && !yt {
		return nil, false
	}
	tb := i.tb
	// shifts: y has its own type and width
	if op == token.SHL || op == token.SHR {
		w := widthOf(t)
		X := toTerm(i, x, w)
		var Y *Term
		if yy, ok := y.(*Term); ok {
			Y = yy
		} else {
			v, _ := concBits(y)
			Y = tb.BV(64, v)
		}
		// bring Y to width w, saturating
		var Yw *Term
		if Y.w > w {
			big := tb.Not(tb.Eq(tb.Extract(Y, Y.w-1, w), tb.BV(Y.w-w, 0)))
			Yw = tb.Ite(big, tb.BV(w, uint64(w)), tb.Extract(Y, w-1, 0))
		} else {
			Yw = tb.Zext(Y, w)
		}
		var r *Term
		switch {
		case op == token.SHL:
			r = tb.Bin(opShl, X, Yw)
		case isSigned(t):
			r = tb.Bin(opAshr, X, Yw)
		default:
			r = tb.Bin(opLshr, X, Yw)
		}
		return norm(t, r), true
	}
	w := widthOf(t)
	if w < 0 {
		panic(fmt.Sprintf("symBinop: unsupported type %v for %s", t, op))
	}
	X, Y := toTerm(i, x, w), toTerm(i, y, w)
	signed := isSigned(t)
	boolT := types.Typ[types.Bool]
	switch op {
	case token.ADD:
		return norm(t, tb.Bin(opAdd, X, Y)), true
	case token.SUB:
		return norm(t, tb.Bin(opSub, X, Y)), true
	case token.MUL:
		if !X.isConst() && !Y.isConst() && w > 16 {
			i.abort("symbolic-by-symbolic multiplication at %d bits refused", w)
		}
		return norm(t, tb.Bin(opMul, X, Y)), true
	case token.QUO, token.REM:
		if i.decide(tb.Eq(Y, tb.BV(w, 0))) {
			panic(targetPanic{"runtime error: integer divide by zero"})
		}
		if !Y.isConst() && w > 16 {
			i.abort("division by symbolic divisor at %d bits refused", w)
		}
		var o Op
		switch {
		case op == token.QUO && signed:
			o = opSdiv
		case op == token.QUO:
			o = opUdiv
		case signed:
			o = opSrem
		default:
			o = opUrem
		}
		return norm(t, tb.Bin(o, X, Y)), true
	case token.AND:
		return norm(t, tb.Bin(opBand, X, Y)), true
	case token.OR:
		return norm(t, tb.Bin(opBor, X, Y)), true
	case token.XOR:
		return norm(t, tb.Bin(opBxor, X, Y)), true
	case token.AND_NOT:
		return norm(t, tb.Bin(opBand, X, tb.Bnot(Y))), true
	case token.EQL:
		return norm(boolT, tb.Eq(X, Y)), true
	case token.NEQ:
		return norm(boolT, tb.Not(tb.Eq(X, Y))), true
	case token.LSS:
		if signed {
			return norm(boolT, tb.Bin(opSlt, X, Y)), true
		}
		return norm(boolT, tb.Bin(opUlt, X, Y)), true
	case token.LEQ:
		if signed {
			return norm(boolT, tb.Bin(opSle, X, Y)), true
		}
		return norm(boolT, tb.Bin(opUle, X, Y)), true
	case token.GTR:
		if signed {
			return norm(boolT, tb.Bin(opSlt, Y, X)), true
		}
		return norm(boolT, tb.Bin(opUlt, Y, X)), true
	case token.GEQ:
		if signed {
			return norm(boolT, tb.Bin(opSle, Y, X)), true
		}
		return norm(boolT, tb.Bin(opUle, Y, X)), true
	}
	panic(fmt.Sprintf("symBinop: unsupported op %s", op))
}

func byteTerm(i *interpreter, b value) *Term {
	if t, ok := b.(*Term); ok {
		return t
	}
	return i.tb.BV(8, uint64(b.(byte)))
}

// strLessTerm returns x < y (strict) lexicographically as a bool or Term.
func strLessTerm(i *interpreter, x, y value) value {
	xb, yb := strBytes(x), strBytes(y)
	n := len(xb)
	if len(yb) < n {
		n = len(yb)
	}
	tb := i.tb
	// result for "all first n equal": len(x) < len(y)
	acc := tb.Bool(len(xb) < len(yb))
	for k := n - 1; k >= 0; k-- {
		a, b := byteTerm(i, xb[k]), byteTerm(i, yb[k])
		acc = tb.Ite(tb.Bin(opUlt, a, b), tb.tt, tb.Ite(tb.Eq(a, b), acc, tb.ff))
	}
	return norm(types.Typ[types.Bool], acc)
}

func notV(i *interpreter, v value) value {
	switch v := v.(type) {
	case bool:
		return !v
	case *Term:
		return norm(types.Typ[types.Bool], i.tb.Not(v))
	}
	panic("notV")
}

func symStrBinop(i *interpreter, op token.Token, x, y value) value {
	switch op {
	case token.ADD:
		xb, yb := strBytes(x), strBytes(y)
		out := make([]value, 0, len(xb)+len(yb))
		out = append(out, xb...)
		out = append(out, yb...)
		return mkstr(out)
	case token.EQL:
		return strEqTerm(i, x, y)
	case token.NEQ:
		return notV(i, strEqTerm(i, x, y))
	case token.LSS:
		return strLessTerm(i, x, y)
	case token.GTR:
		return strLessTerm(i, y, x)
	case token.LEQ:
		return notV(i, strLessTerm(i, y, x))
	case token.GEQ:
		return notV(i, strLessTerm(i, x, y))
	}
	panic(fmt.Sprintf("symStrBinop: unsupported op %s", op))
}

func minmax(i *interpreter, fn value, a, b value, isMin bool) value {
	// determine type from concrete operand where possible
	_, at := a.(*Term)
	_, bt := b.(*Term)
	if !at && !bt && !isStrSym(a) && !isStrSym(b) {
		switch a := a.(type) {
		case int:
			if (a < b.(int)) == isMin {
				return a
			}
			return b
		case string:
			if (a < b.(string)) == isMin {
				return a
			}
			return b
		case int64:
			if (a < b.(int64)) == isMin {
				return a
			}
			return b
		case uint64:
			if (a < b.(uint64)) == isMin {
				return a
			}
			return b
		case float64:
			if (a < b.(float64)) == isMin {
				return a
			}
			return b
		case uint8:
			if (a < b.(uint8)) == isMin {
				return a
			}
			return b
		case int32:
			if (a < b.(int32)) == isMin {
				return a
			}
			return b
		case uint:
			if (a < b.(uint)) == isMin {
				return a
			}
			return b
		case uint32:
			if (a < b.(uint32)) == isMin {
				return a
			}
			return b
		}
		panic(fmt.Sprintf("min/max: unsupported %T", a))
	}
	// symbolic integer operands: ite(a < b, a, b) under the operand type's signedness
	if bi, ok := fn.(*ssa.Builtin); ok {
		if sig, ok := bi.Type().(*types.Signature); ok && sig.Params().Len() > 0 {
			T := sig.Params().At(0).Type()
			if sl, ok := T.(*types.Slice); ok { // variadic tail
				T = sl.Elem()
			}
			if bt, ok := T.Underlying().(*types.Basic); ok && bt.Info()&types.IsInteger != 0 {
				w := 0
				if t, ok := a.(*Term); ok {
					w = t.w
				} else if t, ok := b.(*Term); ok {
					w = t.w
				}
				lt := binop(i, token.LSS, T, a, b)
				if c, ok := lt.(bool); ok {
					if c == isMin {
						return a
					}
					return b
				}
				ta, tb2 := toTerm(i, a, w), toTerm(i, b, w)
				if isMin {
					return norm(T, i.tb.Ite(lt.(*Term), ta, tb2))
				}
				return norm(T, i.tb.Ite(lt.(*Term), tb2, ta))
			}
		}
	}
	i.abort("min/max on symbolic operands (non-integer)")
	return nil
}

func isStrSym(v value) bool { _, ok := v.(symstr); return ok }

// symConv handles conversions whose operand is symbolic.
func symConv(i *interpreter, t_dst, t_src types.Type, x value) (value, bool) {
	ut_src := t_src.Underlying()
	ut_dst := t_dst.Underlying()
	switch x := x.(type) {
	case *Term:
		db, ok := ut_dst.(*types.Basic)
		if !ok {
			panic(fmt.Sprintf("symConv: %v -> %v", t_src, t_dst))
		}
		if db.Kind() == types.String {
			// string(rune): concretise
			v := sext64(i.concretize(x), x.w)
			return string(rune(v)), true
		}
		if db.Info()&types.IsFloat != 0 {
			v := i.concretize(x)
			if isSigned(t_src) {
				return conv(i, t_dst, t_src, fromBits(t_src, uint64(sext64(v, x.w)))), true
			}
			return conv(i, t_dst, t_src, fromBits(t_src, v)), true
		}
		dw := widthOf(t_dst)
		if dw <= 0 {
			panic(fmt.Sprintf("symConv: %v -> %v", t_src, t_dst))
		}
		var r *Term
		if isSigned(t_src) {
			r = i.tb.Sext(x, dw)
		} else {
			r = i.tb.Zext(x, dw)
		}
		return norm(t_dst, r), true

	case symstr:
		switch ut_dst := ut_dst.(type) {
		case *types.Basic:
			if ut_dst.Kind() == types.String {
				return x, true
			}
		case *types.Slice:
			switch ut_dst.Elem().Underlying().(*types.Basic).Kind() {
			case types.Byte:
				out := make([]value, len(x))
				copy(out, x)
				return out, true
			case types.Rune:
				out := []value{}
				it := &stringIter{i: i, s: x}
				for {
					t := it.next()
					if !t[0].(bool) {
						break
					}
					out = append(out, t[2])
				}
				return out, true
			}
		}
		panic(fmt.Sprintf("symConv: symstr -> %v", t_dst))

	case []value:
		if sl, ok := ut_src.(*types.Slice); ok {
			if db, ok := ut_dst.(*types.Basic); ok && db.Kind() == types.String {
				eb, _ := sl.Elem().Underlying().(*types.Basic)
				if eb != nil && eb.Kind() == types.Byte {
					return mkstr(x), true
				}
				if eb != nil && eb.Kind() == types.Rune {
					var out []value
					for _, r := range x {
						if rt, ok := r.(*Term); ok {
							res := i.callByName("unicode/utf8", "AppendRune", []value{[]value(nil), rt}).([]value)
							out = append(out, res...)
						} else {
							var buf [4]byte
							n := utf8.EncodeRune(buf[:], r.(rune))
							for _, b := range buf[:n] {
								out = append(out, b)
							}
						}
					}
					return mkstr(out), true
				}
			}
		}
	}
	return nil, false
}
