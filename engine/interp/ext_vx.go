package interp

// The harness API (package vxrt): bodiless functions in the symbolic build,
// intercepted here.

import (
	"fmt"
	"go/types"
	"strconv"
)

func init() {
	for k, v := range map[string]externalFn{
		"Byte":        vxByte,
		"Bool":        vxBool,
		"Int":         vxInt,
		"Len":         vxLen,
		"Choice":      vxChoice,
		"Bytes":       vxBytes,
		"Text":        vxText,
		"Assume":      vxAssume,
		"Assert":      vxAssert,
		"Reach":       vxReach,
		"Param":       vxParam,
		"Logf":        vxLogf,
		"Dir":         func(fr *frame, args []value) value { return "/vfs" },
		"FSStamp":     vxFSStamp,
		"FSFaults":    vxFSFaults,
		"EnvSymbolic": vxEnvSymbolic,
		"EnvFixed":    vxEnvFixed,
		"EnvUnset":    vxEnvUnset,
		"EnvPresent":  vxEnvPresent,
		"CI":          vxCI,
		"CISymbolic":  vxCISymbolic,
		"Trimpath":    vxTrimpath,
		"Freeze":      vxFreeze,
		"Shared":      vxShared,
		"FileStamp":   vxFileStamp,
		"Symlink":     vxSymlink,
		"Jitter":      func(fr *frame, args []value) value { return nil },
		"Calibrate": func(fr *frame, args []value) value {
			if !fr.i.truth(args[0]) {
				fr.i.abort("harness calibration failed (an unexported function the harness calls directly no longer behaves as the harness assumes): %s", labelOf(args[1]))
			}
			return nil
		},
		"Stress":        func(fr *frame, args []value) value { return false },
		"Stagger":       func(fr *frame, args []value) value { return nil },
		"RunAsSubtest":  vxRunAsSubtest,
		"SharedGlobals": vxSharedGlobals,
		"FrameFile":     vxFrameFile,
		"Symbolic":      func(fr *frame, args []value) value { return true },
		"Stdout":        func(fr *frame, args []value) value { return mkstr(fr.i.path.stdout) },
		"Flag":          vxFlag,
		"TestSources":   vxTestSources,
		"Oracle":        vxOracle,
		"Yield":         func(fr *frame, args []value) value { fr.i.yield(); return nil },
		"Preemptions":   vxPreemptions,
		"Eq":            vxEq,
		"Chdir":         func(fr *frame, args []value) value { return nil },
		"TestFileBase":  func(fr *frame, args []value) value { return "x_test" },
		"TestFileDir":   func(fr *frame, args []value) value { return "/pkg" },
		"YAMLAssume":    func(fr *frame, args []value) value { fr.i.path.extra["yamlassume"] = fr.i.truth(args[0]); return nil },
		"And": func(fr *frame, args []value) value {
			return norm(types.Typ[types.Bool], fr.i.tb.And(boolTerm(fr.i, args[0]), boolTerm(fr.i, args[1])))
		},
		"Or": func(fr *frame, args []value) value {
			return norm(types.Typ[types.Bool], fr.i.tb.Or(boolTerm(fr.i, args[0]), boolTerm(fr.i, args[1])))
		},
		"Not": func(fr *frame, args []value) value {
			return norm(types.Typ[types.Bool], fr.i.tb.Not(boolTerm(fr.i, args[0])))
		},
		"Implies": func(fr *frame, args []value) value {
			return norm(types.Typ[types.Bool], fr.i.tb.Or(fr.i.tb.Not(boolTerm(fr.i, args[0])), boolTerm(fr.i, args[1])))
		},
	} {
		externals[vxPkg+"."+k] = v
	}
}

func labelOf(v value) string {
	if s, ok := v.(string); ok {
		return s
	}
	return "?"
}

func vxByte(fr *frame, args []value) value {
	i := fr.i
	t := i.freshByte(labelOf(args[0]))
	i.path.inputs = append(i.path.inputs, InputRec{Kind: "byte", Label: labelOf(args[0]), Terms: []*Term{t}})
	return t
}

func vxBool(fr *frame, args []value) value {
	i := fr.i
	t := i.freshBool(labelOf(args[0]))
	i.path.inputs = append(i.path.inputs, InputRec{Kind: "bool", Label: labelOf(args[0]), Terms: []*Term{t}})
	return t
}

func vxInt(fr *frame, args []value) value {
	i := fr.i
	lo, hi := asInt64(i, args[1]), asInt64(i, args[2])
	t := i.freshInt(labelOf(args[0]))
	i.path.inputs = append(i.path.inputs, InputRec{Kind: "int", Label: labelOf(args[0]), Terms: []*Term{t}})
	i.assume(norm(types.Typ[types.Bool], i.tb.And(
		i.tb.Bin(opSle, i.tb.BV(64, uint64(lo)), t),
		i.tb.Bin(opSle, t, i.tb.BV(64, uint64(hi))))))
	return t
}

func vxLen(fr *frame, args []value) value {
	i := fr.i
	lo, hi := int(asInt64(i, args[1])), int(asInt64(i, args[2]))
	if hi < lo {
		hi = lo
	}
	k := lo + i.choose(hi-lo+1)
	i.path.inputs = append(i.path.inputs, InputRec{Kind: "len", Label: labelOf(args[0]), N: k})
	return k
}

func vxChoice(fr *frame, args []value) value {
	i := fr.i
	n := int(asInt64(i, args[1]))
	k := i.choose(n)
	i.path.inputs = append(i.path.inputs, InputRec{Kind: "choice", Label: labelOf(args[0]), N: k})
	return k
}

func vxBytes(fr *frame, args []value) value {
	i := fr.i
	n := int(asInt64(i, args[1]))
	out := make([]value, n)
	ts := make([]*Term, n)
	for k := range out {
		ts[k] = i.freshByte(labelOf(args[0]))
		out[k] = ts[k]
	}
	i.path.inputs = append(i.path.inputs, InputRec{Kind: "bytes", Label: labelOf(args[0]), Terms: ts})
	return out
}

func vxText(fr *frame, args []value) value {
	return mkstr(vxBytes(fr, args).([]value))
}

func vxAssume(fr *frame, args []value) value {
	fr.i.assume(args[0])
	return nil
}

func vxAssert(fr *frame, args []value) value {
	fr.i.check(args[0], labelOf(args[1]))
	return nil
}

func vxReach(fr *frame, args []value) value {
	fr.i.path.reached[labelOf(args[0])] = true
	return nil
}

func vxParam(fr *frame, args []value) value {
	name := labelOf(args[0])
	if v, ok := fr.i.eng.Opts.Params[name]; ok {
		return v
	}
	return int(asInt64(fr.i, args[1]))
}

func vxLogf(fr *frame, args []value) value {
	if len(fr.i.path.log) < 100 {
		fr.i.path.log = append(fr.i.path.log, toString(args[0]))
	}
	return nil
}

func vxFSStamp(fr *frame, args []value) value {
	return "ops:" + strconv.Itoa(fr.i.path.fs.nMut)
}

// vxFileStamp(path): a signature of one file that changes with every mutating operation on
// it (create, write, truncate - also when the content ends up identical).
func vxFileStamp(fr *frame, args []value) value {
	i := fr.i
	dir, name := i.splitPath(args[0])
	n := i.path.fs.find(i, dir, name)
	if n == nil {
		return "<missing>"
	}
	return "file:" + strconv.Itoa(n.id) + ":" + strconv.Itoa(n.muts)
}

// vxRunAsSubtest(f): runs f(nil) the way package testing runs a sub-test body: on a stack of
// its own whose root is testing.tRunner (none of the harness's frames are below it).
func vxRunAsSubtest(fr *frame, args []value) value {
	i := fr.i
	call(i, &frame{i: i, trunner: true}, fr.callpos, args[0], []value{(*value)(nil)})
	return nil
}

// vxSymlink(target, link): link becomes a symbolic link to the directory target (both concrete).
func vxSymlink(fr *frame, args []value) value {
	i := fr.i
	fs := i.path.fs
	t, ok1 := args[0].(string)
	l, ok2 := args[1].(string)
	if !ok1 || !ok2 {
		i.abort("Symlink: paths must be concrete")
	}
	if fs.links == nil {
		fs.links = map[string]string{}
	}
	fs.links[cleanDir(l)] = fs.canon(t)
	fs.logOp("symlink %s -> %s", l, t)
	return nil
}

func vxFSFaults(fr *frame, args []value) value {
	fr.i.path.fs.faults = fr.i.truth(args[0])
	return nil
}

func (i *interpreter) envSpecs() map[string]EnvSpec {
	m, _ := i.path.extra["envspec"].(map[string]EnvSpec)
	if m == nil {
		m = map[string]EnvSpec{}
		for k, v := range i.eng.Opts.EnvSpec {
			m[k] = v
		}
		i.path.extra["envspec"] = m
	}
	return m
}

func vxEnvSymbolic(fr *frame, args []value) value {
	fr.i.envSpecs()[labelOf(args[0])] = EnvSpec{Kind: "symbolic", Max: int(asInt64(fr.i, args[1]))}
	return nil
}

func vxEnvFixed(fr *frame, args []value) value {
	fr.i.envSpecs()[labelOf(args[0])] = EnvSpec{Kind: "fixed", Value: labelOf(args[1])}
	fr.i.path.extra["envfixed:"+labelOf(args[0])] = labelOf(args[1])
	return nil
}

func vxEnvUnset(fr *frame, args []value) value {
	fr.i.envSpecs()[labelOf(args[0])] = EnvSpec{Kind: "unset"}
	return nil
}

func vxEnvPresent(fr *frame, args []value) value {
	fr.i.envSpecs()[labelOf(args[0])] = EnvSpec{Kind: "present"}
	return nil
}

func vxCI(fr *frame, args []value) value {
	fr.i.path.extra["ci"] = args[0]
	return nil
}

func vxCISymbolic(fr *frame, args []value) value {
	i := fr.i
	b := i.freshBool("ci")
	i.path.inputs = append(i.path.inputs, InputRec{Kind: "ci", Label: "CI", Terms: []*Term{b}})
	i.path.extra["ci"] = value(b)
	return nil
}

func vxTrimpath(fr *frame, args []value) value {
	fr.i.path.extra["goroot_empty"] = fr.i.truth(args[0])
	return nil
}

func vxFreeze(fr *frame, args []value) value {
	i := fr.i
	itf := args[0].(iface)
	p, ok := itf.v.(*value)
	if !ok || p == nil {
		i.abort("Freeze: not a pointer")
	}
	what := labelOf(args[1])
	i.freezeCells(p, what)
	return nil
}

// freezeCells arms the write monitor on the cell and, for structs, on every field.
func (i *interpreter) freezeCells(p *value, what string) {
	i.path.frozen[p] = what
	if st, ok := (*p).(structure); ok {
		for k := range st {
			i.freezeCells(&st[k], what)
		}
	}
}

func vxShared(fr *frame, args []value) value {
	itf := args[0].(iface)
	s := fr.i.path.sched
	switch v := itf.v.(type) {
	case *omap:
		s.shared[v] = true
	case *value:
		s.shared[v] = true
		if v != nil {
			if st, ok := (*v).(structure); ok {
				for k := range st {
					s.shared[&st[k]] = true
					if m, ok := st[k].(*omap); ok && m != nil {
						s.shared[m] = true
					}
					if a, ok := st[k].(array); ok {
						for e := range a {
							s.shared[&a[e]] = true
						}
					}
				}
			}
		}
	default:
		fr.i.abort("Shared: unsupported %T", itf.v)
	}
	return nil
}

// vxSharedGlobals(prefix): from now on every store to a package-level variable
// (its struct fields and array elements included) of a package below prefix is a
// scheduling point before and after the store, so that unsynchronised use of a
// package-level scratch variable by two goroutines is explored like any other
// interleaving. Harness overlay files are exempt.
func vxSharedGlobals(fr *frame, args []value) value {
	i := fr.i
	s := i.path.sched
	s.racyPrefix = toString(args[0])
	if s.racy == nil {
		s.racy = map[*value]bool{}
	}
	for g, addr := range i.globals {
		if i.racyGlobal(g) {
			s.registerRacy(addr)
		}
	}
	return nil
}

func vxFrameFile(fr *frame, args []value) value {
	if fr.caller != nil && !fr.caller.goexit && !fr.caller.trunner {
		fr.caller.fileOverride = labelOf(args[0])
	}
	return nil
}

func vxFlag(fr *frame, args []value) value {
	fr.i.path.extra["flag:"+labelOf(args[0])] = args[1]
	return nil
}

// TestSources(path, names...) declares a parseable Go test source at path
// with the given top-level function names (for the go/parser stub).
func vxTestSources(fr *frame, args []value) value {
	m, _ := fr.i.path.extra["sources"].(map[string][]value)
	if m == nil {
		m = map[string][]value{}
		fr.i.path.extra["sources"] = m
	}
	m[labelOf(args[0])] = variadic(args[1])
	return nil
}

// Oracle(name) returns a fresh symbolic Bool standing for the answer of an
// environment oracle (e.g. "is this YAML valid").
func vxOracle(fr *frame, args []value) value {
	i := fr.i
	b := i.freshBool("oracle:" + labelOf(args[0]))
	i.path.inputs = append(i.path.inputs, InputRec{Kind: "oracle", Label: labelOf(args[0]), Terms: []*Term{b}})
	return b
}

func vxPreemptions(fr *frame, args []value) value {
	if fr.i.path.sched == nil {
		return 0
	}
	return fr.i.path.sched.preemptions
}

// Eq(a, b string) bool: equality as one term (avoids forking in harness oracles).
func vxEq(fr *frame, args []value) value {
	return strEqTerm(fr.i, args[0], args[1])
}

var _ = fmt.Sprint
