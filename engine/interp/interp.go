// Copyright 2013 The Go Authors. All rights reserved.
// Use of this source code is governed by a BSD-style
// license that can be found in the LICENSE file.
//
// Package interp is gosym's symbolic executor: a fork of
// golang.org/x/tools/go/ssa/interp (v0.29.0) in which scalars and string bytes
// may be SMT terms, branches on symbolic conditions are decided by a solver and
// explored by re-execution with decision prefixes, package initialisers run
// lazily per path, and the environment (os, fmt, sync, runtime, …) is provided
// by intrinsics and stubs.
package interp

import (
	"fmt"
	"go/token"
	"go/types"
	"os"
	"runtime"
	"slices"
	"strings"

	"golang.org/x/tools/go/ssa"
)

type continuation int

const (
	kNext continuation = iota
	kReturn
	kJump
)

// State of one worker: one path is executed at a time.
type interpreter struct {
	eng                *Engine
	prog               *ssa.Program
	globals            map[*ssa.Global]*value // addresses of global variables, per path
	inInit             int                    // depth of lazily run package initialisers
	inited             map[*ssa.Package]bool  // packages whose initialiser has been started on this path
	runtimeErrorString types.Type
	sizes              types.Sizes
	tb                 *termBank
	solver             *Solver
	path               *pathState
	id                 int
	funcNames          map[*value]string // runtime.Func stand-ins
	trace              bool
	scratch            map[int]uint64
	models             []map[string]uint64 // recent solver models (feasibility cache)
	modelNext          int
	fnInfos            map[*ssa.Function]*fnInfo
}

type deferred struct {
	fn    value
	args  []value
	instr *ssa.Defer
	tail  *deferred
}

type frame struct {
	i                *interpreter
	caller           *frame
	fn               *ssa.Function
	block, prevBlock *ssa.BasicBlock
	env              []value           // dynamic values of SSA variables, indexed by slots
	slots            map[ssa.Value]int // per-function numbering of SSA values (shared, read-only)
	locals           []value
	defers           *deferred
	result           value
	panicking        bool
	panic            interface{}
	phitemps         []value // temporaries for parallel phi assignment
	fileOverride     string  // file name reported by the runtime.Caller stub
	callpos          token.Pos
	goexit           bool // synthetic root of a spawned goroutine (stands for runtime.goexit)
	trunner          bool // synthetic root standing for testing.tRunner (a sub-test body, vxrt.RunAsSubtest)
}

func (fr *frame) get(key ssa.Value) value {
	switch key := key.(type) {
	case nil:
		// Hack; simplifies handling of optional attributes
		// such as ssa.Slice.{Low,High}.
		return nil
	case *ssa.Function, *ssa.Builtin:
		return key
	case *ssa.Const:
		return constValue(key)
	case *ssa.Global:
		return fr.i.globalAddr(key)
	}
	if k, ok := fr.slots[key]; ok {
		if r := fr.env[k]; r != nil {
			return r
		}
		if _, isNilOK := key.(*ssa.Call); isNilOK {
			return nil // a call without result used as a value never happens; keep nil
		}
		return nil
	}
	panic(fmt.Sprintf("get: no value for %T: %v", key, key.Name()))
}

// globalAddr returns the address of a package-level variable, allocating it
// and running its package's initialiser on first use on this path.
func (i *interpreter) globalAddr(g *ssa.Global) *value {
	if r, ok := i.globals[g]; ok {
		return r
	}
	cell := zero(mustDeref(g.Type()))
	addr := &cell
	i.globals[g] = addr
	pkg := g.Pkg
	if ov, ok := i.eng.globalOverrides[pkg.Pkg.Path()+"."+g.Name()]; ok {
		*addr = ov(i)
		return addr
	}
	if !i.inited[pkg] {
		i.inited[pkg] = true
		if i.eng.stubbedPkg(pkg.Pkg.Path()) {
			i.abort("global %s of stubbed package %s read (no override)", g.Name(), pkg.Pkg.Path())
		}
		if init := pkg.Func("init"); init != nil {
			i.path.inits = append(i.path.inits, pkg.Pkg.Path())
			i.inInit++
			call(i, nil, token.NoPos, init, nil)
			i.inInit--
		}
	} else if i.eng.stubbedPkg(pkg.Pkg.Path()) {
		i.abort("global %s of stubbed package %s read (no override)", g.Name(), pkg.Pkg.Path())
	}
	if i.racyGlobal(g) {
		i.path.sched.registerRacy(addr)
	}
	return addr
}

// runDefer runs a deferred call d.
// It always returns normally, but may set or clear fr.panic.
func (fr *frame) runDefer(d *deferred) {
	var ok bool
	defer func() {
		if !ok {
			// Deferred call created a new state of panic.
			r := recover()
			if isControl(r) {
				panic(r)
			}
			fr.panicking = true
			fr.panic = r
		}
	}()
	call(fr.i, fr, d.instr.Pos(), d.fn, d.args)
	ok = true
}

// runDefers executes fr's deferred function calls in LIFO order.
func (fr *frame) runDefers() {
	for d := fr.defers; d != nil; d = d.tail {
		fr.runDefer(d)
	}
	fr.defers = nil
	if fr.panicking {
		panic(fr.panic) // new panic, or still panicking
	}
}

// lookupMethod returns the method set for type typ.
func lookupMethod(i *interpreter, typ types.Type, meth *types.Func) *ssa.Function {
	return i.prog.LookupMethod(typ, meth.Pkg(), meth.Name())
}

// visitInstr interprets a single ssa.Instruction within the activation
// record frame.  It returns a continuation value indicating where to
// read the next instruction from.
func visitInstr(fr *frame, instr ssa.Instruction) continuation {
	i := fr.i
	switch instr := instr.(type) {
	case *ssa.DebugRef:
		// no-op

	case *ssa.UnOp:
		fr.env[fr.slots[instr]] = unop(i, instr, fr.get(instr.X))

	case *ssa.BinOp:
		fr.env[fr.slots[instr]] = binop(i, instr.Op, instr.X.Type(), fr.get(instr.X), fr.get(instr.Y))

	case *ssa.Call:
		fn, args := prepareCall(fr, &instr.Call)
		fr.env[fr.slots[instr]] = call(fr.i, fr, instr.Pos(), fn, args)

	case *ssa.ChangeInterface:
		fr.env[fr.slots[instr]] = fr.get(instr.X)

	case *ssa.ChangeType:
		fr.env[fr.slots[instr]] = fr.get(instr.X) // (can't fail)

	case *ssa.Convert:
		fr.env[fr.slots[instr]] = conv(i, instr.Type(), instr.X.Type(), fr.get(instr.X))

	case *ssa.SliceToArrayPointer:
		fr.env[fr.slots[instr]] = sliceToArrayPointer(instr.Type(), instr.X.Type(), fr.get(instr.X))

	case *ssa.MakeInterface:
		fr.env[fr.slots[instr]] = iface{t: instr.X.Type(), v: fr.get(instr.X)}

	case *ssa.Extract:
		fr.env[fr.slots[instr]] = fr.get(instr.Tuple).(tuple)[instr.Index]

	case *ssa.Slice:
		fr.env[fr.slots[instr]] = slice(i, fr.get(instr.X), fr.get(instr.Low), fr.get(instr.High), fr.get(instr.Max))

	case *ssa.Return:
		switch len(instr.Results) {
		case 0:
		case 1:
			fr.result = fr.get(instr.Results[0])
		default:
			var res []value
			for _, r := range instr.Results {
				res = append(res, fr.get(r))
			}
			fr.result = tuple(res)
		}
		fr.block = nil
		return kReturn

	case *ssa.RunDefers:
		fr.runDefers()

	case *ssa.Panic:
		panic(targetPanic{fr.get(instr.X)})

	case *ssa.Send:
		i.abort("channel send is not supported")

	case *ssa.Store:
		addr := fr.get(instr.Addr).(*value)
		if addr == nil {
			panic(targetPanic{"runtime error: invalid memory address or nil pointer dereference"})
		}
		i.checkFrozen(addr)
		i.yieldShared(addr)
		racy := i.racyCell(addr)
		if racy {
			i.yield()
		}
		store(mustDeref(instr.Addr.Type()), addr, fr.get(instr.Val))
		if racy {
			i.yield()
		}

	case *ssa.If:
		succ := 1
		if i.truth(fr.get(instr.Cond)) {
			succ = 0
		}
		fr.prevBlock, fr.block = fr.block, fr.block.Succs[succ]
		return kJump

	case *ssa.Jump:
		fr.prevBlock, fr.block = fr.block, fr.block.Succs[0]
		return kJump

	case *ssa.Defer:
		fn, args := prepareCall(fr, &instr.Call)
		defers := &fr.defers
		if into := fr.get(instr.DeferStack); into != nil {
			defers = into.(**deferred)
		}
		*defers = &deferred{
			fn:    fn,
			args:  args,
			instr: instr,
			tail:  *defers,
		}

	case *ssa.Go:
		fn, args := prepareCall(fr, &instr.Call)
		i.spawn(fr, instr.Pos(), fn, args)

	case *ssa.MakeChan:
		i.abort("channels are not supported")

	case *ssa.Alloc:
		var addr *value
		if instr.Heap {
			// new
			addr = new(value)
			fr.env[fr.slots[instr]] = addr
		} else {
			// local
			addr = fr.env[fr.slots[instr]].(*value)
		}
		*addr = zero(mustDeref(instr.Type()))

	case *ssa.MakeSlice:
		n := asInt64(i, fr.get(instr.Cap))
		if n < 0 || n > 1<<28 {
			panic(targetPanic{"runtime error: makeslice: cap out of range"})
		}
		slice := make([]value, n)
		tElt := instr.Type().Underlying().(*types.Slice).Elem()
		for k := range slice {
			slice[k] = zero(tElt)
		}
		fr.env[fr.slots[instr]] = slice[:asInt64(i, fr.get(instr.Len))]

	case *ssa.MakeMap:
		fr.env[fr.slots[instr]] = makeMap(instr.Type().Underlying().(*types.Map).Key(), 0)

	case *ssa.Range:
		fr.env[fr.slots[instr]] = rangeIter(i, fr.get(instr.X), instr.X.Type())

	case *ssa.Next:
		fr.env[fr.slots[instr]] = fr.get(instr.Iter).(iter).next()

	case *ssa.FieldAddr:
		p := fr.get(instr.X).(*value)
		if p == nil {
			panic(targetPanic{"runtime error: invalid memory address or nil pointer dereference"})
		}
		fr.env[fr.slots[instr]] = &(*p).(structure)[instr.Field]

	case *ssa.Field:
		fr.env[fr.slots[instr]] = fr.get(instr.X).(structure)[instr.Field]

	case *ssa.IndexAddr:
		x := fr.get(instr.X)
		idx := fr.get(instr.Index)
		switch x := x.(type) {
		case []value:
			k := i.indexIn(idx, len(x))
			fr.env[fr.slots[instr]] = &x[k]
		case *value: // *array
			if x == nil {
				panic(targetPanic{"runtime error: invalid memory address or nil pointer dereference"})
			}
			a := (*x).(array)
			if t, ok := idx.(*Term); ok {
				// symbolic index into a table: handled at the load, see tableRef
				fr.env[fr.slots[instr]] = i.symTableAddr(a, t, mustDeref(instr.X.Type()).Underlying().(*types.Array).Elem())
			} else {
				k := i.indexIn(idx, len(a))
				fr.env[fr.slots[instr]] = &a[k]
			}
		default:
			panic(fmt.Sprintf("unexpected x type in IndexAddr: %T", x))
		}

	case *ssa.Index:
		x := fr.get(instr.X)
		idx := fr.get(instr.Index)

		switch x := x.(type) {
		case array:
			if t, ok := idx.(*Term); ok {
				fr.env[fr.slots[instr]] = i.symTableLoad(x, t, instr.Type())
			} else {
				fr.env[fr.slots[instr]] = x[i.indexIn(idx, len(x))]
			}
		case string:
			fr.env[fr.slots[instr]] = x[i.indexIn(idx, len(x))]
		case symstr:
			fr.env[fr.slots[instr]] = x[i.indexIn(idx, len(x))]
		default:
			panic(fmt.Sprintf("unexpected x type in Index: %T", x))
		}

	case *ssa.Lookup:
		fr.env[fr.slots[instr]] = lookup(i, instr, fr.get(instr.X), fr.get(instr.Index))

	case *ssa.MapUpdate:
		m := fr.get(instr.Map)
		key := fr.get(instr.Key)
		v := fr.get(instr.Value)
		switch m := m.(type) {
		case *omap:
			i.yieldShared(m)
			m.insert(i, key, v)
		default:
			panic(fmt.Sprintf("illegal map type: %T", m))
		}

	case *ssa.TypeAssert:
		fr.env[fr.slots[instr]] = typeAssert(fr.i, instr, fr.get(instr.X).(iface))

	case *ssa.MakeClosure:
		var bindings []value
		for _, binding := range instr.Bindings {
			bindings = append(bindings, fr.get(binding))
		}
		fr.env[fr.slots[instr]] = &closure{instr.Fn.(*ssa.Function), bindings}

	case *ssa.Phi:
		panic("unreachable") // phis are processed at block entry

	case *ssa.Select:
		i.abort("select is not supported")

	default:
		panic(fmt.Sprintf("unexpected instruction: %T", instr))
	}

	return kNext
}

// indexIn converts idx to an in-range index or raises the target's panic.
func (i *interpreter) indexIn(idx value, n int) int {
	if t, ok := idx.(*Term); ok {
		// bounds check first (unsigned compare covers negatives)
		if !i.inRange(t, n) {
			panic(targetPanic{fmt.Sprintf("runtime error: index out of range [symbolic] with length %d", n)})
		}
		return int(i.concretize(t))
	}
	k := asInt64(i, idx)
	if k < 0 || k >= int64(n) {
		panic(targetPanic{fmt.Sprintf("runtime error: index out of range [%d] with length %d", k, n)})
	}
	return int(k)
}

// inRange decides 0 <= t < n for an index term.
func (i *interpreter) inRange(t *Term, n int) bool {
	if t.w < 64 && uint64(n) > mask(t.w) {
		return true
	}
	return i.decide(i.tb.Bin(opUlt, t, i.tb.BV(t.w, uint64(n))))
}

// symTableLoad reads a[t] for a symbolic index into an array of concrete
// scalars as an if-then-else chain over the distinct values.
func (i *interpreter) symTableLoad(a array, t *Term, elemT types.Type) value {
	w := widthOf(elemT)
	if w < 0 || len(a) > 256 {
		return a[i.indexIn(t, len(a))]
	}
	if !i.inRange(t, len(a)) {
		panic(targetPanic{fmt.Sprintf("runtime error: index out of range [symbolic] with length %d", len(a))})
	}
	// runs of equal consecutive values -> chain of threshold tests
	type run struct {
		v  uint64
		hi int
	}
	var runs []run
	for k, e := range a {
		v, ok := concBits(e)
		if !ok {
			return a[int(i.concretize(t))]
		}
		v &= maskB(w)
		if len(runs) > 0 && runs[len(runs)-1].v == v {
			runs[len(runs)-1].hi = k
		} else {
			runs = append(runs, run{v, k})
		}
	}
	mk := func(v uint64) *Term {
		if w == 0 {
			return i.tb.Bool(v != 0)
		}
		return i.tb.BV(w, v)
	}
	res := mk(runs[len(runs)-1].v)
	for p := len(runs) - 2; p >= 0; p-- {
		res = i.tb.Ite(i.tb.Bin(opUle, t, i.tb.BV(t.w, uint64(runs[p].hi))), mk(runs[p].v), res)
	}
	return norm(elemT, res)
}

// symTableAddr returns a fresh cell holding a[t]; writes through it are lost,
// so it is only valid for loads (the common `table[c]` pattern).
func (i *interpreter) symTableAddr(a array, t *Term, elemT types.Type) *value {
	v := i.symTableLoad(a, t, elemT)
	cell := new(value)
	*cell = v
	i.path.roCells[cell] = true
	return cell
}

// prepareCall determines the function value and argument values for a
// function call in a Call, Go or Defer instruction, performing
// interface method lookup if needed.
func prepareCall(fr *frame, call *ssa.CallCommon) (fn value, args []value) {
	v := fr.get(call.Value)
	if call.Method == nil {
		// Function call.
		fn = v
	} else {
		// Interface method invocation.
		recv := v.(iface)
		if recv.t == nil {
			panic(targetPanic{"runtime error: invalid memory address or nil pointer dereference (method on nil interface)"})
		}
		if f := lookupMethod(fr.i, recv.t, call.Method); f == nil {
			// Unreachable in well-typed programs.
			panic(fmt.Sprintf("method set for dynamic type %v does not contain %s", recv.t, call.Method))
		} else {
			fn = f
		}
		args = append(args, recv.v)
	}
	for _, arg := range call.Args {
		args = append(args, fr.get(arg))
	}
	return
}

// call interprets a call to a function (function, builtin or closure)
// fn with arguments args, returning its result.
// callpos is the position of the callsite.
func call(i *interpreter, caller *frame, callpos token.Pos, fn value, args []value) value {
	switch fn := fn.(type) {
	case *ssa.Function:
		if fn == nil {
			panic(targetPanic{"runtime error: call of nil function"})
		}
		return callSSA(i, caller, callpos, fn, args, nil)
	case *closure:
		return callSSA(i, caller, callpos, fn.Fn, args, fn.Env)
	case *ssa.Builtin:
		return callBuiltin(caller, callpos, fn, args)
	}
	panic(fmt.Sprintf("cannot call %T", fn))
}

// callByName calls a package-level function of the program.
func (i *interpreter) callByName(pkgPath, name string, args []value) value {
	pkg := i.prog.ImportedPackage(pkgPath)
	if pkg == nil {
		i.abort("package %s is not part of the program", pkgPath)
	}
	fn := pkg.Func(name)
	if fn == nil {
		i.abort("function %s.%s not found", pkgPath, name)
	}
	return call(i, nil, token.NoPos, fn, args)
}

func loc(fset *token.FileSet, pos token.Pos) string {
	if pos == token.NoPos {
		return ""
	}
	return " at " + fset.Position(pos).String()
}

// callSSA interprets a call to function fn with arguments args,
// and lexical environment env, returning its result.
// callpos is the position of the callsite.
func callSSA(i *interpreter, caller *frame, callpos token.Pos, fn *ssa.Function, args []value, env []value) value {
	if i.trace {
		fmt.Fprintf(os.Stderr, "Entering %s\n", fn)
	}
	fr := &frame{
		i:       i,
		caller:  caller, // for panic/recover
		fn:      fn,
		callpos: callpos,
	}
	if fn.Parent() == nil {
		finfo := i.fnInfoOf(fn)
		name := finfo.name
		if fn.Synthetic == "package initializer" {
			if caller != nil && caller.fn != nil && caller.fn.Synthetic == "package initializer" {
				return nil // dependencies are initialised lazily
			}
		}
		if ext := externals[name]; ext != nil {
			i.path.noteExtern(name)
			return ext(fr, args)
		}
		if nat := natives[name]; nat != nil {
			if r, ok := nat(i, args); ok {
				i.path.noteNative(name)
				return r
			}
		}
		if fn.Blocks == nil {
			if o := fn.Origin(); o != nil {
				if ext := externals[o.String()]; ext != nil {
					return ext(fr, args)
				}
			}
			i.abort("no code for function %s (no intrinsic registered)", name)
		}
		if p := fn.Pkg; p != nil && i.eng.stubbedPkg(p.Pkg.Path()) && !i.eng.allowFn[name] && !i.eng.allowedFile(fn) {
			i.abort("call into stubbed package without intrinsic: %s", name)
		}
	}

	// generic function body?
	if fn.TypeParams().Len() > 0 && len(fn.TypeArgs()) == 0 {
		panic("interp requires ssa.BuilderMode to include InstantiateGenerics to execute generics")
	}
	i.path.noteFn(fn)

	info := i.fnInfoOf(fn)
	fr.slots = info.slots
	fr.env = make([]value, info.nslots)
	fr.block = fn.Blocks[0]
	fr.locals = make([]value, len(fn.Locals))
	for k, l := range fn.Locals {
		fr.locals[k] = zero(mustDeref(l.Type()))
		fr.env[fr.slots[l]] = &fr.locals[k]
	}
	for k, p := range fn.Params {
		fr.env[fr.slots[p]] = args[k]
	}
	for k, fv := range fn.FreeVars {
		fr.env[fr.slots[fv]] = env[k]
	}
	for fr.block != nil {
		runFrame(fr)
	}
	return fr.result
}

// runFrame executes SSA instructions starting at fr.block and
// continuing until a return, a panic, or a recovered panic.
func runFrame(fr *frame) {
	defer func() {
		if fr.block == nil {
			return // normal return
		}
		r := recover()
		if isControl(r) {
			panic(r)
		}
		fr.panicking = true
		fr.panic = r
		fr.runDefers()
		fr.block = fr.fn.Recover
	}()

	p := fr.i.path
	for {
		nonPhis := executePhis(fr)
		p.steps += len(nonPhis)
		if p.steps > p.maxSteps {
			fr.i.abort("instruction budget of %d exceeded (unwinding bound)", p.maxSteps)
		}
		for _, instr := range nonPhis {
			if fr.i.trace {
				if v, ok := instr.(ssa.Value); ok {
					fmt.Fprintln(os.Stderr, "\t", v.Name(), "=", instr)
				} else {
					fmt.Fprintln(os.Stderr, "\t", instr)
				}
			}
			if visitInstr(fr, instr) == kReturn {
				return
			}
			// Inv: kNext (continue) or kJump (last instr)
		}
	}
}

// executePhis executes the phi-nodes at the start of the current
// block and returns the non-phi instructions.
func executePhis(fr *frame) []ssa.Instruction {
	firstNonPhi := -1
	for i, instr := range fr.block.Instrs {
		if _, ok := instr.(*ssa.Phi); !ok {
			firstNonPhi = i
			break
		}
	}
	// Inv: 0 <= firstNonPhi; every block contains a non-phi.

	nonPhis := fr.block.Instrs[firstNonPhi:]
	if firstNonPhi > 0 {
		phis := fr.block.Instrs[:firstNonPhi]
		predIndex := slices.Index(fr.block.Preds, fr.prevBlock)
		fr.phitemps = fr.phitemps[:0]
		for _, phi := range phis {
			phi := phi.(*ssa.Phi)
			fr.phitemps = append(fr.phitemps, fr.get(phi.Edges[predIndex]))
		}
		for i, phi := range phis {
			fr.env[fr.slots[phi.(*ssa.Phi)]] = fr.phitemps[i]
		}
	}
	return nonPhis
}

// doRecover implements the recover() built-in.
func doRecover(caller *frame) value {
	// recover() must be exactly one level beneath the deferred
	// function (two levels beneath the panicking function) to
	// have any effect.  Thus we ignore both "defer recover()" and
	// "defer f() -> g() -> recover()".
	if caller != nil && !caller.panicking &&
		caller.caller != nil && caller.caller.panicking {
		if _, isExit := caller.caller.panic.(goexitSignal); isExit {
			return iface{} // runtime.Goexit cannot be recovered
		}
		caller.caller.panicking = false
		p := caller.caller.panic
		caller.caller.panic = nil

		switch p := p.(type) {
		case targetPanic:
			// The target program explicitly called panic().
			if s, ok := p.v.(string); ok {
				return iface{caller.i.runtimeErrorString, s}
			}
			return p.v
		case runtime.Error:
			// The interpreter encountered a runtime error.
			return iface{caller.i.runtimeErrorString, p.Error()}
		case string:
			// The interpreter explicitly called panic().
			return iface{caller.i.runtimeErrorString, p}
		default:
			panic(fmt.Sprintf("unexpected panic type %T in target call to recover()", p))
		}
	}
	return iface{}
}

// panicString renders a recovered panic value for reports.
func panicString(r interface{}) string {
	switch p := r.(type) {
	case targetPanic:
		return "panic: " + toString(p.v)
	case runtime.Error:
		return "runtime error (interpreter): " + p.Error()
	case string:
		return "panic (interpreter): " + p
	case error:
		return "panic: " + p.Error()
	}
	return fmt.Sprintf("panic: %v", r)
}

func shortStack() string {
	buf := make([]byte, 1<<14)
	n := runtime.Stack(buf, false)
	lines := strings.Split(string(buf[:n]), "\n")
	if len(lines) > 40 {
		lines = lines[:40]
	}
	return strings.Join(lines, "\n")
}

// fnInfo caches per-function facts that are expensive to recompute on every
// call: the printed name (key of the intrinsic tables) and the numbering of
// the function's SSA values (frame slots).
type fnInfo struct {
	name   string
	slots  map[ssa.Value]int
	nslots int
}

func (i *interpreter) fnInfoOf(fn *ssa.Function) *fnInfo {
	if fi, ok := i.fnInfos[fn]; ok {
		return fi
	}
	fi := &fnInfo{name: fn.String(), slots: map[ssa.Value]int{}}
	add := func(v ssa.Value) {
		if _, ok := fi.slots[v]; !ok {
			fi.slots[v] = fi.nslots
			fi.nslots++
		}
	}
	for _, p := range fn.Params {
		add(p)
	}
	for _, fv := range fn.FreeVars {
		add(fv)
	}
	for _, l := range fn.Locals {
		add(l)
	}
	for _, b := range fn.Blocks {
		for _, in := range b.Instrs {
			if v, ok := in.(ssa.Value); ok {
				add(v)
			}
		}
	}
	i.fnInfos[fn] = fi
	return fi
}
