package interp

import "strings"

// Feasibility of PC ∧ extra, decided in three stages of increasing cost:
//
//  1. exact value-set reasoning for conditions over a single 8-bit or Bool
//     variable (most branch conditions of byte-oriented code test one input
//     byte, possibly through table look-ups and arithmetic). The value set of
//     each variable under all single-variable constraints asserted so far is
//     kept as a 256-bit set; "empty intersection" is a sound unsat answer in
//     every case, and "non-empty" is a sound sat answer when the variable does
//     not occur in any multi-variable constraint of the path condition;
//  2. a cache of recent solver models, checked by evaluating the whole path
//     condition under them;
//  3. the SMT solver (z3), to which the path condition is sent lazily.
//
// Stages 1 and 2 are exact decision procedures for the cases they answer (they
// enumerate all 256 values / exhibit a model), so every verdict is still a
// verdict over all values of the symbolic inputs.

type domain [4]uint64

func (d *domain) has(x uint64) bool { return d[x>>6]&(1<<(x&63)) != 0 }
func (d *domain) set(x uint64)      { d[x>>6] |= 1 << (x & 63) }
func (d *domain) empty() bool       { return d[0]|d[1]|d[2]|d[3] == 0 }
func (d *domain) first() uint64 {
	for x := uint64(0); x < 256; x++ {
		if d.has(x) {
			return x
		}
	}
	return 0
}

func fullDomain(w int) *domain {
	if w == 0 {
		return &domain{3, 0, 0, 0}
	}
	return &domain{^uint64(0), ^uint64(0), ^uint64(0), ^uint64(0)}
}

func smallVar(v *Term) bool { return v.w == 8 || v.w == 0 }

func (i *interpreter) domOf(v *Term) *domain {
	d := i.path.dom[v.id]
	if d == nil {
		d = fullDomain(v.w)
		i.path.dom[v.id] = d
	}
	return d
}

// satSet returns the values of v within its current domain for which t holds.
func (i *interpreter) satSet(t *Term, v *Term) domain {
	d := i.domOf(v)
	var out domain
	n := uint64(256)
	if v.w == 0 {
		n = 2
	}
	scratch := i.scratch
	for x := uint64(0); x < n; x++ {
		if !d.has(x) {
			continue
		}
		for k := range scratch {
			delete(scratch, k)
		}
		if t.evalWith(v, x, i.path.model, scratch) != 0 {
			out.set(x)
		}
	}
	return out
}

// narrow updates value sets / entanglement for a newly asserted literal.
func (i *interpreter) narrow(t *Term) {
	p := i.path
	if !t.many && len(t.vars) == 1 && smallVar(t.vars[0]) {
		v := t.vars[0]
		s := i.satSet(t, v)
		*i.domOf(v) = s
		return
	}
	if t.many {
		var vs []*Term
		t.allVars(map[int]bool{}, &vs)
		for _, v := range vs {
			p.ent[v.id] = true
		}
		return
	}
	for _, v := range t.vars {
		p.ent[v.id] = true
	}
}

func copyModel(m map[string]uint64) map[string]uint64 {
	out := make(map[string]uint64, len(m)+1)
	for k, v := range m {
		out[k] = v
	}
	return out
}

// satisfies reports whether model m satisfies the whole path condition and extra.
func (i *interpreter) satisfies(m map[string]uint64, extra *Term) bool {
	memo := map[int]uint64{}
	if extra.Eval(m, memo) == 0 {
		return false
	}
	for _, t := range i.path.pc {
		if t.Eval(m, memo) == 0 {
			return false
		}
	}
	return true
}

func (i *interpreter) flushSolver() {
	p := i.path
	if !p.open {
		i.solver.BeginPath()
		p.open = true
	}
	for ; p.synced < len(p.pc); p.synced++ {
		i.solver.Assert(p.pc[p.synced])
	}
}

// feasible decides PC ∧ extra. On Sat the returned model satisfies both.
// Answers of the fast stages are cross-checked against z3 for every assertion
// query and for a sample of the branch queries; a disagreement is inconclusive.
func (i *interpreter) feasible(extra *Term, what string) (SatResult, map[string]uint64) {
	res, m, fast := i.feasible1(extra, what)
	if fast && !extra.isConst() {
		st := &i.eng.stats[i.id]
		st.fastAnswers++
		if strings.HasPrefix(what, "assertion") || st.fastAnswers%64 == 0 {
			i.flushSolver()
			r2, _, err := i.solver.Check(extra, nil)
			st.crossChecked++
			if err != nil || r2 == Unknown {
				i.abort("solver inconclusive on cross-check of %s: %v %v", what, r2, err)
			}
			if r2 != res {
				i.abort("value-set/model-cache answer %v disagrees with z3 answer %v on %s: %s", res, r2, what, extra.String())
			}
		}
	}
	return res, m
}

func (i *interpreter) feasible1(extra *Term, what string) (SatResult, map[string]uint64, bool) {
	p := i.path
	st := &i.eng.stats[i.id]
	if extra.isConst() {
		if extra.val == 0 {
			return Unsat, nil, true
		}
		return Sat, copyModel(p.model), true
	}
	if !extra.many && len(extra.vars) == 1 && smallVar(extra.vars[0]) {
		v := extra.vars[0]
		s := i.satSet(extra, v)
		if s.empty() {
			st.domUnsat++
			return Unsat, nil, true
		}
		if !p.ent[v.id] {
			st.domSat++
			m := copyModel(p.model)
			cur := m[v.name]
			if !s.has(cur) {
				m[v.name] = s.first()
			}
			return Sat, m, true
		}
		// entangled: try to repair the current model by changing v alone
		m := copyModel(p.model)
		tried := 0
		for x := uint64(0); x < 256 && tried < 24; x++ {
			if !s.has(x) {
				continue
			}
			tried++
			m[v.name] = x
			if i.satisfies(m, extra) {
				st.cacheSat++
				return Sat, m, true
			}
		}
	}
	if i.satisfies(p.model, extra) {
		st.cacheSat++
		return Sat, copyModel(p.model), true
	}
	for _, m := range i.models {
		if i.satisfies(m, extra) {
			st.cacheSat++
			return Sat, copyModel(m), true
		}
	}
	i.flushSolver()
	res, m, err := i.solver.Check(extra, p.vars)
	if err != nil || res == Unknown {
		i.abort("solver inconclusive on %s: %v %v", what, res, err)
	}
	if res == Sat {
		// variables the solver has never seen are unconstrained: keep their current values
		for k, v := range p.model {
			if _, ok := m[k]; !ok {
				m[k] = v
			}
		}
		if len(i.models) < 24 {
			i.models = append(i.models, m)
		} else {
			i.models[i.modelNext%24] = m
		}
		i.modelNext++
	}
	return res, m, false
}

type fastStats struct {
	domSat, domUnsat, cacheSat int
	fastAnswers, crossChecked  int
	_                          [3]int // padding against false sharing
}
