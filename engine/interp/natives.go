package interp

// Native fast path: pure library functions are called on the host when all
// their arguments are concrete; otherwise the call falls through to the
// interpreted SSA body (or to an intrinsic).

import (
	"bytes"
	"math"
	"path"
	"path/filepath"
	"reflect"
	"strconv"
	"strings"
	"unicode"
	"unicode/utf8"
)

type nativeFn func(i *interpreter, args []value) (value, bool)

var natives = map[string]nativeFn{}

func toGo(v value, t reflect.Type) (reflect.Value, bool) {
	switch t.Kind() {
	case reflect.String:
		if s, ok := v.(string); ok {
			return reflect.ValueOf(s).Convert(t), true
		}
		if ss, ok := v.(symstr); ok {
			buf := make([]byte, len(ss))
			for k, b := range ss {
				c, ok := b.(byte)
				if !ok {
					return reflect.Value{}, false
				}
				buf[k] = c
			}
			return reflect.ValueOf(string(buf)).Convert(t), true
		}
	case reflect.Int:
		if x, ok := v.(int); ok {
			return reflect.ValueOf(x).Convert(t), true
		}
	case reflect.Int32:
		if x, ok := v.(int32); ok {
			return reflect.ValueOf(x).Convert(t), true
		}
	case reflect.Int64:
		if x, ok := v.(int64); ok {
			return reflect.ValueOf(x).Convert(t), true
		}
	case reflect.Uint8:
		if x, ok := v.(uint8); ok {
			return reflect.ValueOf(x).Convert(t), true
		}
	case reflect.Uint64:
		if x, ok := v.(uint64); ok {
			return reflect.ValueOf(x).Convert(t), true
		}
	case reflect.Bool:
		if x, ok := v.(bool); ok {
			return reflect.ValueOf(x).Convert(t), true
		}
	case reflect.Uint32:
		if x, ok := v.(uint32); ok {
			return reflect.ValueOf(x).Convert(t), true
		}
	case reflect.Float64:
		if x, ok := v.(float64); ok {
			return reflect.ValueOf(x).Convert(t), true
		}
	case reflect.Float32:
		if x, ok := v.(float32); ok {
			return reflect.ValueOf(x).Convert(t), true
		}
	case reflect.Slice:
		xs, ok := v.([]value)
		if !ok {
			return reflect.Value{}, false
		}
		if xs == nil {
			return reflect.Zero(t), true
		}
		out := reflect.MakeSlice(t, len(xs), len(xs))
		for k, e := range xs {
			ev, ok := toGo(e, t.Elem())
			if !ok {
				return reflect.Value{}, false
			}
			out.Index(k).Set(ev)
		}
		return out, true
	}
	return reflect.Value{}, false
}

func fromGo(rv reflect.Value) (value, bool) {
	switch rv.Kind() {
	case reflect.String:
		return rv.String(), true
	case reflect.Int:
		return int(rv.Int()), true
	case reflect.Int32:
		return int32(rv.Int()), true
	case reflect.Int64:
		return rv.Int(), true
	case reflect.Uint8:
		return uint8(rv.Uint()), true
	case reflect.Uint64:
		return rv.Uint(), true
	case reflect.Bool:
		return rv.Bool(), true
	case reflect.Uint32:
		return uint32(rv.Uint()), true
	case reflect.Float64:
		return rv.Float(), true
	case reflect.Float32:
		return float32(rv.Float()), true
	case reflect.Slice:
		if rv.IsNil() {
			return []value(nil), true
		}
		out := make([]value, rv.Len())
		for k := range out {
			e, ok := fromGo(rv.Index(k))
			if !ok {
				return nil, false
			}
			out[k] = e
		}
		return out, true
	}
	return nil, false
}

// regNative registers a host function. Results containing errors are not
// supported here (those get dedicated intrinsics).
func regNative(name string, f interface{}) {
	fv := reflect.ValueOf(f)
	ft := fv.Type()
	natives[name] = func(i *interpreter, args []value) (value, bool) {
		if ft.IsVariadic() || len(args) != ft.NumIn() {
			return nil, false
		}
		in := make([]reflect.Value, len(args))
		for k, a := range args {
			v, ok := toGo(a, ft.In(k))
			if !ok {
				return nil, false
			}
			in[k] = v
		}
		out := fv.Call(in)
		switch len(out) {
		case 0:
			return nil, true
		case 1:
			r, ok := fromGo(out[0])
			return r, ok
		}
		tup := make(tuple, len(out))
		for k := range out {
			r, ok := fromGo(out[k])
			if !ok {
				return nil, false
			}
			tup[k] = r
		}
		return tup, true
	}
}

func init() {
	regNative("strings.Split", strings.Split)
	regNative("strings.SplitN", strings.SplitN)
	regNative("strings.SplitAfter", strings.SplitAfter)
	regNative("strings.Join", strings.Join)
	regNative("strings.Index", strings.Index)
	regNative("strings.IndexByte", strings.IndexByte)
	regNative("strings.LastIndex", strings.LastIndex)
	regNative("strings.LastIndexByte", strings.LastIndexByte)
	regNative("strings.Contains", strings.Contains)
	regNative("strings.Count", strings.Count)
	regNative("strings.HasPrefix", strings.HasPrefix)
	regNative("strings.HasSuffix", strings.HasSuffix)
	regNative("strings.TrimSuffix", strings.TrimSuffix)
	regNative("strings.TrimPrefix", strings.TrimPrefix)
	regNative("strings.TrimSpace", strings.TrimSpace)
	regNative("strings.TrimRight", strings.TrimRight)
	regNative("strings.TrimLeft", strings.TrimLeft)
	regNative("strings.Trim", strings.Trim)
	regNative("strings.ReplaceAll", strings.ReplaceAll)
	regNative("strings.Replace", strings.Replace)
	regNative("strings.Repeat", strings.Repeat)
	regNative("strings.ToLower", strings.ToLower)
	regNative("strings.ToUpper", strings.ToUpper)
	regNative("strings.EqualFold", strings.EqualFold)
	regNative("strings.Fields", strings.Fields)
	regNative("bytes.Equal", bytes.Equal)
	regNative("bytes.Index", bytes.Index)
	regNative("bytes.IndexByte", bytes.IndexByte)
	regNative("bytes.HasPrefix", bytes.HasPrefix)
	regNative("bytes.HasSuffix", bytes.HasSuffix)
	regNative("bytes.Contains", bytes.Contains)
	regNative("bytes.Count", bytes.Count)
	regNative("path/filepath.Join", func(a []string) string { return filepath.Join(a...) })
	regNative("path/filepath.Dir", filepath.Dir)
	regNative("path/filepath.Base", filepath.Base)
	regNative("path/filepath.Ext", filepath.Ext)
	regNative("path/filepath.IsAbs", filepath.IsAbs)
	regNative("path/filepath.Clean", filepath.Clean)
	regNative("path.Join", func(a []string) string { return path.Join(a...) })
	regNative("path.Dir", path.Dir)
	regNative("path.Base", path.Base)
	regNative("path.Clean", path.Clean)
	regNative("strconv.Itoa", strconv.Itoa)
	regNative("strconv.Quote", strconv.Quote)
	regNative("strconv.FormatInt", strconv.FormatInt)
	regNative("unicode.IsSpace", unicode.IsSpace)
	regNative("unicode.IsDigit", unicode.IsDigit)
	regNative("unicode.IsLetter", unicode.IsLetter)
	regNative("unicode.IsUpper", unicode.IsUpper)
	regNative("unicode.IsLower", unicode.IsLower)
	regNative("unicode.ToLower", unicode.ToLower)
	regNative("unicode.ToUpper", unicode.ToUpper)
	regNative("unicode/utf8.RuneCountInString", utf8.RuneCountInString)
	regNative("unicode/utf8.ValidString", utf8.ValidString)
	regNative("unicode/utf8.RuneLen", utf8.RuneLen)
	regNative("unicode/utf8.ValidRune", utf8.ValidRune)
	regNative("math.Float64frombits", math.Float64frombits)
	regNative("math.Float64bits", math.Float64bits)
	regNative("math.Float32frombits", math.Float32frombits)
	regNative("math.Float32bits", math.Float32bits)
}
