package interp

// Further library models that behaviour-preserving refactorings of the code
// under test are likely to reach for: os.Rename/RemoveAll/Mkdir/Chmod and
// (*os.File).Sync, sort.Slice*, sync/atomic, errors.As.

import (
	"bytes"
	"encoding/json"
	"fmt"
	"go/token"
	"go/types"
	"strings"
)

func init() {
	for k, v := range map[string]externalFn{
		"os.Rename":                        extRename,
		"os.RemoveAll":                     extRemoveAll,
		"os.Mkdir":                         extMkdir,
		"os.Chmod":                         extChmod,
		"(*os.File).Sync":                  extFileSync,
		"(*os.File).Chmod":                 extFileSync,
		"sort.Slice":                       extSortSlice,
		"sort.SliceStable":                 extSortSlice,
		"sort.SliceIsSorted":               extSliceIsSorted,
		"errors.As":                        extErrorsAs,
		"sync/atomic.AddInt32":             extAtomicAdd,
		"sync/atomic.AddInt64":             extAtomicAdd,
		"sync/atomic.AddUint32":            extAtomicAdd,
		"sync/atomic.AddUint64":            extAtomicAdd,
		"sync/atomic.LoadInt32":            extAtomicLoad,
		"sync/atomic.LoadInt64":            extAtomicLoad,
		"sync/atomic.LoadUint32":           extAtomicLoad,
		"sync/atomic.LoadUint64":           extAtomicLoad,
		"sync/atomic.StoreInt32":           extAtomicStore,
		"sync/atomic.StoreInt64":           extAtomicStore,
		"sync/atomic.StoreUint32":          extAtomicStore,
		"sync/atomic.StoreUint64":          extAtomicStore,
		"sync/atomic.SwapInt32":            extAtomicSwap,
		"sync/atomic.SwapInt64":            extAtomicSwap,
		"sync/atomic.SwapUint32":           extAtomicSwap,
		"sync/atomic.SwapUint64":           extAtomicSwap,
		"sync/atomic.CompareAndSwapInt32":  extAtomicCAS,
		"sync/atomic.CompareAndSwapInt64":  extAtomicCAS,
		"sync/atomic.CompareAndSwapUint32": extAtomicCAS,
		"sync/atomic.CompareAndSwapUint64": extAtomicCAS,
		"(*sync/atomic.Value).Load":        extAtomicValueLoad,
		"(*sync/atomic.Value).Store":       extAtomicValueStore,
	} {
		externals[k] = v
	}
}

// ---- os

func (i *interpreter) concName(name value) string {
	if s, ok := name.(string); ok {
		return s
	}
	bs := strBytes(name)
	b := make([]byte, len(bs))
	for k := range bs {
		b[k] = byte(i.concretize(byteTerm(i, bs[k])))
	}
	return string(b)
}

func fullPath(dir, name string) string {
	if name == "" {
		return cleanDir(dir)
	}
	if dir == "/" {
		return cleanDir("/" + name)
	}
	return cleanDir(dir + "/" + name)
}

// extRename: os.Rename for regular files (the target, if it is a file, is replaced
// atomically; open handles keep referring to the renamed file).
func extRename(fr *frame, args []value) value {
	i := fr.i
	i.yield()
	fs := i.path.fs
	if i.fsFault("rename") {
		return i.fsErr("rename", args[0])
	}
	odir, oname := i.splitPath(args[0])
	ndir, nname := i.splitPath(args[1])
	n := fs.find(i, odir, oname)
	if n == nil {
		if fs.isDirPath(i, odir, oname) {
			i.abort("os.Rename of a directory is not modelled")
		}
		return i.fsErr("rename (no such file or directory)", args[0])
	}
	if nameTooLong(nname) {
		return i.fsErr("rename (file name too long)", args[1])
	}
	if !fs.dirs[ndir] {
		return i.fsErr("rename (no such file or directory)", args[1])
	}
	if fs.isDirPath(i, ndir, nname) {
		return i.fsErr("rename (file exists)", args[1])
	}
	if t := fs.find(i, ndir, nname); t != nil && t != n {
		t.gone = true
	}
	n.dir, n.name = ndir, nname
	fs.logOp("rename %s/%s -> %s/%s", odir, toString(oname), ndir, toString(nname))
	return nilErr()
}

func extRemoveAll(fr *frame, args []value) value {
	i := fr.i
	i.yield()
	fs := i.path.fs
	if i.fsFault("removeall") {
		return i.fsErr("removeall", args[0])
	}
	dir, name := i.splitPath(args[0])
	if n := fs.find(i, dir, name); n != nil {
		n.gone = true
		fs.logOp("remove %s/%s", dir, toString(name))
		return nilErr()
	}
	if fs.isDirPath(i, dir, name) {
		full := fs.canon(fullPath(dir, i.concName(name)))
		for _, n := range fs.nodes {
			if !n.gone && (n.dir == full || strings.HasPrefix(n.dir, full+"/")) {
				n.gone = true
			}
		}
		for d := range fs.dirs {
			if d == full || strings.HasPrefix(d, full+"/") {
				delete(fs.dirs, d)
			}
		}
		fs.logOp("removeall %s", full)
	}
	return nilErr()
}

func extMkdir(fr *frame, args []value) value {
	i := fr.i
	i.yield()
	fs := i.path.fs
	if i.fsFault("mkdir") {
		return i.fsErr("mkdir", args[0])
	}
	dir, name := i.splitPath(args[0])
	if !fs.dirs[dir] {
		return i.fsErr("mkdir (no such file or directory)", args[0])
	}
	if fs.find(i, dir, name) != nil || fs.isDirPath(i, dir, name) {
		return i.fsErr("mkdir (file exists)", args[0])
	}
	full := fs.canon(fullPath(dir, i.concName(name)))
	fs.dirs[full] = true
	fs.logOp("mkdir %s", full)
	return nilErr()
}

func extChmod(fr *frame, args []value) value {
	i := fr.i
	i.yield()
	fs := i.path.fs
	dir, name := i.splitPath(args[0])
	if fs.find(i, dir, name) == nil && !fs.isDirPath(i, dir, name) {
		return i.fsErr("chmod (no such file or directory)", args[0])
	}
	return nilErr()
}

func extFileSync(fr *frame, args []value) value {
	fr.i.yield()
	return nilErr()
}

// ---- sort.Slice family (reflection-free): a stable insertion sort driven by the
// caller's less function. Go's sort.Slice does not promise an order among equal
// elements; the native replay decides whether an order-dependent result is real.

func sliceOf(i *interpreter, x value) []value {
	itf, ok := x.(iface)
	if !ok {
		i.abort("sort.Slice: argument is not an interface value")
	}
	s, ok := itf.v.([]value)
	if !ok {
		i.abort("sort.Slice: argument is not a slice (%T)", itf.v)
	}
	return s
}

func extSortSlice(fr *frame, args []value) value {
	i := fr.i
	s := sliceOf(i, args[0])
	less := func(a, b int) bool { return i.truth(call(i, fr, fr.callpos, args[1], []value{a, b})) }
	for a := 1; a < len(s); a++ {
		for b := a; b > 0 && less(b, b-1); b-- {
			s[b], s[b-1] = s[b-1], s[b]
		}
	}
	return nil
}

func extSliceIsSorted(fr *frame, args []value) value {
	i := fr.i
	s := sliceOf(i, args[0])
	for a := len(s) - 1; a > 0; a-- {
		if i.truth(call(i, fr, fr.callpos, args[1], []value{a, a - 1})) {
			return false
		}
	}
	return true
}

// ---- errors.As without reflectlite

func extErrorsAs(fr *frame, args []value) value {
	i := fr.i
	err := args[0].(iface)
	tgt := args[1].(iface)
	if tgt.t == nil {
		panic(targetPanic{"errors: target cannot be nil"})
	}
	pt, ok := tgt.t.Underlying().(*types.Pointer)
	cell, ok2 := tgt.v.(*value)
	if !ok || !ok2 || cell == nil {
		panic(targetPanic{"errors: target must be a non-nil pointer"})
	}
	T := pt.Elem()
	errT := types.Universe.Lookup("error").Type()
	for depth := 0; depth < 50; depth++ {
		if err.t == nil {
			return false
		}
		if types.AssignableTo(err.t, T) {
			if types.IsInterface(T) {
				*cell = iface{t: err.t, v: err.v}
			} else {
				store(T, cell, err.v)
			}
			return true
		}
		if m := findMethod(i, err.t, "As"); m != nil && m.Signature.Params().Len() == 1 && m.Signature.Results().Len() == 1 {
			if i.truth(call(i, fr, fr.callpos, m, []value{err.v, tgt})) {
				return true
			}
		}
		m := findMethod(i, err.t, "Unwrap")
		if m == nil {
			return false
		}
		if m.Signature.Results().Len() != 1 || !types.Identical(m.Signature.Results().At(0).Type(), errT) {
			i.abort("errors.As: Unwrap() []error is not supported")
		}
		err = call(i, fr, fr.callpos, m, []value{err.v}).(iface)
	}
	i.abort("errors.As: chain too long")
	return false
}

// ---- sync/atomic on integer cells: atomic, and a scheduling point

func atomicElem(fr *frame) types.Type {
	sig := fr.fn.Signature
	return sig.Params().At(0).Type().Underlying().(*types.Pointer).Elem()
}

func extAtomicAdd(fr *frame, args []value) value {
	i := fr.i
	i.yield()
	p := args[0].(*value)
	T := atomicElem(fr)
	nv := binop(i, token.ADD, T, load(T, p), args[1])
	store(T, p, nv)
	return nv
}

func extAtomicLoad(fr *frame, args []value) value {
	fr.i.yield()
	return load(atomicElem(fr), args[0].(*value))
}

func extAtomicStore(fr *frame, args []value) value {
	fr.i.yield()
	store(atomicElem(fr), args[0].(*value), args[1])
	return nil
}

func extAtomicSwap(fr *frame, args []value) value {
	fr.i.yield()
	T := atomicElem(fr)
	p := args[0].(*value)
	old := load(T, p)
	store(T, p, args[1])
	return old
}

func extAtomicCAS(fr *frame, args []value) value {
	i := fr.i
	i.yield()
	T := atomicElem(fr)
	p := args[0].(*value)
	if equals(i, T, load(T, p), args[1]) {
		store(T, p, args[2])
		return true
	}
	return false
}

func extAtomicValueLoad(fr *frame, args []value) value {
	i := fr.i
	i.yield()
	key := "atomicvalue:" + ptrKey(args[0])
	if v, ok := i.path.extra[key]; ok {
		return v
	}
	return iface{}
}

func extAtomicValueStore(fr *frame, args []value) value {
	i := fr.i
	i.yield()
	if args[1].(iface).t == nil {
		panic(targetPanic{"sync/atomic: store of nil value into Value"})
	}
	i.path.extra["atomicvalue:"+ptrKey(args[0])] = args[1]
	return nil
}

func ptrKey(v value) string {
	p, _ := v.(*value)
	return fmtPtr(p)
}

func fmtPtr(p *value) string { return fmt.Sprintf("%p", p) }

// ---- encoding/json.Encoder for the operand kinds the Marshal model knows

type jsonEnc struct {
	w          value
	escapeHTML bool
	prefix     string
	indent     string
}

func init() {
	externals["encoding/json.NewEncoder"] = func(fr *frame, args []value) value {
		i := fr.i
		p := newStruct(i.namedType("encoding/json", "Encoder"))
		i.path.extra["jsonenc:"+fmtPtr(p)] = &jsonEnc{w: args[0], escapeHTML: true}
		return p
	}
	externals["(*encoding/json.Encoder).SetEscapeHTML"] = func(fr *frame, args []value) value {
		fr.i.jsonEncOf(args[0]).escapeHTML = fr.i.truth(args[1])
		return nil
	}
	externals["(*encoding/json.Encoder).SetIndent"] = func(fr *frame, args []value) value {
		e := fr.i.jsonEncOf(args[0])
		p, ok1 := args[1].(string)
		in, ok2 := args[2].(string)
		if !ok1 || !ok2 {
			fr.i.abort("json.Encoder.SetIndent with symbolic strings")
		}
		e.prefix, e.indent = p, in
		return nil
	}
	externals["(*encoding/json.Encoder).Encode"] = extJSONEncode
}

func (i *interpreter) jsonEncOf(v value) *jsonEnc {
	p, _ := v.(*value)
	e, _ := i.path.extra["jsonenc:"+fmtPtr(p)].(*jsonEnc)
	if e == nil {
		i.abort("json.Encoder not produced by NewEncoder")
	}
	return e
}

func extJSONEncode(fr *frame, args []value) value {
	i := fr.i
	e := i.jsonEncOf(args[0])
	itf := args[1].(iface)
	var data []value
	basic := false
	if itf.t != nil {
		_, basic = itf.t.Underlying().(*types.Basic)
	}
	var gv interface{}
	switch v := itf.v.(type) {
	case bool, int, int8, int16, int32, int64, uint, uint8, uint16, uint32, uint64, float32, float64, string:
		gv = v
	default:
		basic = false
	}
	if itf.t == nil {
		basic, gv = true, nil
	}
	if basic {
		var buf bytes.Buffer
		enc := json.NewEncoder(&buf)
		enc.SetEscapeHTML(e.escapeHTML)
		enc.SetIndent(e.prefix, e.indent)
		if err := enc.Encode(gv); err != nil {
			return i.mkError(err.Error())
		}
		data = strBytes(buf.String())
	} else {
		// Marshaler-style operands (vxrt.JSONValue, json.RawMessage): the Marshal model, then the
		// HTML escaping the encoder applies to a Marshaler's output, then a newline
		if e.prefix != "" || e.indent != "" {
			i.abort("json.Encoder with SetIndent on a document operand is not modelled")
		}
		r := extJSONMarshal(fr, []value{args[1]}).(tuple)
		if err := r[1].(iface); err.t != nil {
			return err
		}
		for _, b := range r[0].([]value) {
			if e.escapeHTML {
				special := false
				switch b := b.(type) {
				case byte:
					special = b == '<' || b == '>' || b == '&'
				case *Term:
					tb := i.tb
					special = i.decide(tb.Or(tb.Eq(b, tb.BV(8, '<')), tb.Or(tb.Eq(b, tb.BV(8, '>')), tb.Eq(b, tb.BV(8, '&')))))
					if special {
						i.abort("json.Encoder: HTML escaping of a symbolic byte")
					}
				}
				if special {
					data = append(data, strBytes(fmt.Sprintf("\\u%04x", b.(byte)))...)
					continue
				}
			}
			data = append(data, b)
		}
		data = append(data, byte('\n'))
	}
	r := i.writeTo(fr, e.w, data)
	if t, ok := r.(tuple); ok && len(t) == 2 {
		return t[1]
	}
	return nilErr()
}

// extCreateTemp: os.CreateTemp(dir, pattern). The random part of the name is a per-path counter
// (names differ from a native run's, which nothing may depend on); dir "" is "/tmp".
func extCreateTemp(fr *frame, args []value) value {
	i := fr.i
	i.yield()
	fs := i.path.fs
	nilFile := (*value)(nil)
	if i.fsFault("createtemp") {
		return tuple{nilFile, i.fsErr("createtemp", args[0])}
	}
	dir, ok1 := args[0].(string)
	pat, ok2 := args[1].(string)
	if !ok1 || !ok2 {
		i.abort("os.CreateTemp with symbolic arguments")
	}
	if dir == "" {
		dir = "/tmp"
		fs.mkdirAll(dir)
	}
	dir = fs.canon(dir)
	if !fs.dirs[dir] {
		return tuple{nilFile, i.fsErr("open (no such file or directory)", args[0])}
	}
	n, _ := i.path.extra["createtemp"].(int)
	i.path.extra["createtemp"] = n + 1
	rnd := fmt.Sprintf("%09d", 100000007+n)
	name := pat + rnd
	if k := strings.LastIndex(pat, "*"); k >= 0 {
		name = pat[:k] + rnd + pat[k+1:]
	}
	node := fs.create(dir, name)
	full := dir + "/" + name
	of := &openFile{node: node, rd: true, wr: true, path: full}
	return tuple{i.newFileHandle(of), nilErr()}
}

func init() { externals["os.CreateTemp"] = extCreateTemp }

// (*os.File).ReadAt / WriteAt: positional I/O that leaves the handle's offset alone.
func extFileReadAt(fr *frame, args []value) value {
	i := fr.i
	i.yield()
	of := i.fileOf(args[0], "ReadAt")
	buf := args[1].([]value)
	off := int(asInt64(i, args[2]))
	if of.closed || !of.rd || of.isDir {
		return tuple{0, i.mkError("read: bad file descriptor")}
	}
	if off < 0 {
		return tuple{0, i.mkError("readat: negative offset")}
	}
	if i.fsFault("read") {
		return tuple{0, i.mkError("read: input/output error")}
	}
	i.path.fs.reads++
	n := of.node
	eof := *i.globalAddr(i.prog.ImportedPackage("io").Var("EOF"))
	if off >= len(n.data) {
		if len(buf) == 0 {
			return tuple{0, nilErr()}
		}
		return tuple{0, eof}
	}
	k := copy(buf, n.data[off:])
	if k < len(buf) {
		return tuple{k, eof}
	}
	return tuple{k, nilErr()}
}

func extFileWriteAt(fr *frame, args []value) value {
	i := fr.i
	i.yield()
	fs := i.path.fs
	of := i.fileOf(args[0], "WriteAt")
	data := args[1].([]value)
	off := int(asInt64(i, args[2]))
	if of.closed || !of.wr || of.isDir {
		return tuple{0, i.mkError("write: bad file descriptor")}
	}
	if of.app {
		return tuple{0, i.mkError("os: invalid use of WriteAt on file opened with O_APPEND")}
	}
	if off < 0 {
		return tuple{0, i.mkError("writeat: negative offset")}
	}
	if i.fsFault("write") {
		return tuple{0, i.mkError("write: input/output error")}
	}
	n := of.node
	for len(n.data) < off {
		n.data = append(n.data, byte(0))
	}
	nd := append([]value(nil), n.data[:off]...)
	nd = append(nd, data...)
	if off+len(data) < len(n.data) {
		nd = append(nd, n.data[off+len(data):]...)
	}
	n.data = nd
	n.muts++
	fs.logOp("writeat %s/%s at %d (%d bytes)", n.dir, toString(n.name), off, len(data))
	return tuple{len(data), nilErr()}
}

func init() {
	externals["(*os.File).ReadAt"] = extFileReadAt
	externals["(*os.File).WriteAt"] = extFileWriteAt
}
