package interp

// In-memory file system model (class C stub for package os).
//
// Semantics relied upon by go-snaps and modelled here:
//   - MkdirAll creates all missing parents; OpenFile honours O_APPEND,
//     O_CREATE, O_RDWR/O_WRONLY, fails on a missing file without O_CREATE;
//   - ReadFile/WriteFile (create + truncate); ReadDir sorted by name;
//   - (*File).Write at the handle offset, or at the end for O_APPEND handles,
//     zero-filling a gap; Truncate does not move the offset; Seek(0,0);
//   - every operation is atomic and a scheduling point; optionally each
//     operation may fail (fault mode), decided by a fresh symbolic Bool.

import (
	"fmt"
	"sort"
)

type fsNode struct {
	dir   string // concrete parent directory ("/a/b")
	name  value  // string or symstr, no '/'
	isDir bool
	data  []value
	gone  bool
	id    int
	muts  int // number of mutating operations on this file (create, write, truncate)
}

type openFile struct {
	isDir   bool
	dirPath string
	path    value
	node    *fsNode
	off     int
	app     bool
	rd, wr  bool
	closed  bool
}

type FS struct {
	nodes  []*fsNode
	links  map[string]string // symbolic links: absolute link path -> absolute target (directories)
	dirs   map[string]bool   // concrete directories
	ops    []string          // log of mutating operations
	nMut   int
	faults bool
	open   map[*value]*openFile
	nextID int
	reads  int
}

func newFS() *FS {
	return &FS{dirs: map[string]bool{"/": true}, open: map[*value]*openFile{}}
}

// splitPath splits a path value into a concrete directory and a (possibly
// symbolic) final element. Symbolic bytes are decided not to be '/' unless the
// path condition forces otherwise (in which case the position splits).
func (i *interpreter) splitPath(p value) (string, value) {
	bs := strBytes(p)
	last := -1
	for k, b := range bs {
		switch b := b.(type) {
		case byte:
			if b == '/' {
				last = k
			}
		case *Term:
			if i.decide(i.tb.Eq(b, i.tb.BV(8, '/'))) {
				last = k
			}
		}
	}
	dirb := make([]byte, 0, len(bs))
	for k := 0; k < last; k++ {
		switch b := bs[k].(type) {
		case byte:
			dirb = append(dirb, b)
		case *Term:
			dirb = append(dirb, byte(i.concretize(b)))
		}
	}
	dir := string(dirb)
	if last == 0 {
		dir = "/"
	}
	if last < 0 {
		dir = "."
	}
	return i.path.fs.canon(dir), mkstr(bs[last+1:])
}

// canon cleans a directory path and follows the symbolic links on it.
func (fs *FS) canon(d string) string {
	d = cleanDir(d)
	if len(fs.links) == 0 || d == "" || d[0] != '/' {
		return d
	}
	for hops := 0; hops < 16; hops++ {
		changed := false
		cur := ""
		rest := d[1:]
		for rest != "" {
			k := 0
			for k < len(rest) && rest[k] != '/' {
				k++
			}
			cur += "/" + rest[:k]
			if k < len(rest) {
				rest = rest[k+1:]
			} else {
				rest = ""
			}
			if t, ok := fs.links[cur]; ok {
				d = t
				if rest != "" {
					d = t + "/" + rest
				}
				d = cleanDir(d)
				changed = true
				break
			}
		}
		if !changed {
			return d
		}
	}
	return d
}

func cleanDir(d string) string {
	// minimal normalisation: collapse "a/../" sequences and trailing slashes
	if d == "" {
		return "."
	}
	parts := []string{}
	abs := d[0] == '/'
	cur := ""
	flush := func() {
		switch cur {
		case "", ".":
		case "..":
			if len(parts) > 0 && parts[len(parts)-1] != ".." {
				parts = parts[:len(parts)-1]
			} else if !abs {
				parts = append(parts, "..")
			}
		default:
			parts = append(parts, cur)
		}
		cur = ""
	}
	for k := 0; k < len(d); k++ {
		if d[k] == '/' {
			flush()
		} else {
			cur += string(d[k])
		}
	}
	flush()
	out := ""
	for k, p := range parts {
		if k > 0 {
			out += "/"
		}
		out += p
	}
	if abs {
		return "/" + out
	}
	if out == "" {
		return "."
	}
	return out
}

func (fs *FS) find(i *interpreter, dir string, name value) *fsNode {
	for _, n := range fs.nodes {
		if n.gone || n.dir != dir {
			continue
		}
		if i.truth(strEqTerm(i, n.name, name)) {
			return n
		}
	}
	return nil
}

func (fs *FS) isDirPath(i *interpreter, dir string, name value) bool {
	if s, ok := name.(string); ok {
		full := dir + "/" + s
		if dir == "/" {
			full = "/" + s
		}
		if s == "" {
			full = dir
		}
		return fs.dirs[fs.canon(full)]
	}
	return false
}

func (fs *FS) logOp(format string, args ...interface{}) {
	fs.nMut++
	if len(fs.ops) < 200 {
		fs.ops = append(fs.ops, fmt.Sprintf(format, args...))
	}
}

func (fs *FS) mkdirAll(dir string) {
	dir = fs.canon(dir)
	for d := dir; ; {
		if fs.dirs[d] {
			break
		}
		fs.dirs[d] = true
		fs.logOp("mkdir %s", d)
		k := len(d) - 1
		for k > 0 && d[k] != '/' {
			k--
		}
		if k <= 0 {
			break
		}
		d = d[:k]
	}
}

// nameTooLong: file names are limited to 255 bytes (NAME_MAX).
func nameTooLong(name value) bool { return strLen(name) > 255 }

func (fs *FS) create(dir string, name value) *fsNode {
	n := &fsNode{dir: dir, name: name, id: fs.nextID, muts: 1}
	fs.nextID++
	fs.nodes = append(fs.nodes, n)
	fs.logOp("create %s/%s", dir, toString(name))
	return n
}

// fault asks whether this operation fails (fault mode only).
func (i *interpreter) fsFault(op string) bool {
	fs := i.path.fs
	if !fs.faults {
		return false
	}
	b := i.freshBool("fault:" + op)
	i.path.inputs = append(i.path.inputs, InputRec{Kind: "fault", Label: op, Terms: []*Term{b}})
	return i.decide(b)
}

// listDir returns the live file nodes and sub-directory names of dir.
func (fs *FS) listDir(dir string) ([]*fsNode, []string) {
	var files []*fsNode
	for _, n := range fs.nodes {
		if !n.gone && n.dir == dir {
			files = append(files, n)
		}
	}
	var subs []string
	prefix := dir + "/"
	if dir == "/" {
		prefix = "/"
	}
	for d := range fs.dirs {
		if len(d) > len(prefix) && d[:len(prefix)] == prefix {
			rest := d[len(prefix):]
			slash := false
			for k := 0; k < len(rest); k++ {
				if rest[k] == '/' {
					slash = true
				}
			}
			if !slash {
				subs = append(subs, rest)
			}
		}
	}
	sort.Strings(subs)
	return files, subs
}
