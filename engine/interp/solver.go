package interp

// A persistent SMT solver process (z3 -in, or cvc5 --incremental) spoken to
// over a pipe. One per worker. Any "(error" line or "unknown" is reported as
// inconclusive by the caller.

import (
	"bufio"
	"fmt"
	"io"
	"os"
	"os/exec"
	"strconv"
	"strings"
	"time"
)

type Solver struct {
	name     string
	cmd      *exec.Cmd
	in       io.WriteCloser
	out      *bufio.Reader
	buf      strings.Builder
	defined  map[int]bool    // term ids defined in the current path scope
	declared map[string]bool // variables declared in the current path scope
	log      io.Writer

	NSat, NUnsat, NUnknown int
	Time                   time.Duration
	Queries                int
}

// Pool sizes of pre-declared symbolic constants (declared at level 0, because
// declarations made inside a push are popped with it).
const (
	poolBytes = 768
	poolBools = 128
	poolInts  = 64
)

func NewSolver(kind string, timeoutMs int) (*Solver, error) {
	var cmd *exec.Cmd
	switch kind {
	case "z3", "":
		cmd = exec.Command("z3", "-in")
		kind = "z3"
	case "z3-new":
		cmd = exec.Command("z3-new", "-in")
	case "cvc5":
		cmd = exec.Command("cvc5", "--incremental", "--lang=smt2", fmt.Sprintf("--tlimit-per=%d", timeoutMs))
	default:
		return nil, fmt.Errorf("unknown solver %q", kind)
	}
	in, err := cmd.StdinPipe()
	if err != nil {
		return nil, err
	}
	out, err := cmd.StdoutPipe()
	if err != nil {
		return nil, err
	}
	cmd.Stderr = cmd.Stdout
	if err := cmd.Start(); err != nil {
		return nil, err
	}
	s := &Solver{name: kind, cmd: cmd, in: in, out: bufio.NewReaderSize(out, 1<<16), defined: map[int]bool{}}
	if f := os.Getenv("GOSYM_SMTLOG"); f != "" {
		lf, _ := os.Create(fmt.Sprintf("%s.%d", f, cmd.Process.Pid))
		s.log = lf
	}
	if kind == "cvc5" {
		s.send("(set-logic QF_BV)\n")
	} else {
		s.send(fmt.Sprintf("(set-option :timeout %d)\n", timeoutMs))
	}
	if err := s.sync(); err != nil {
		return nil, err
	}
	return s, nil
}

func (s *Solver) Close() {
	if s == nil || s.cmd == nil {
		return
	}
	s.in.Close()
	s.cmd.Process.Kill()
	s.cmd.Wait()
}

func (s *Solver) send(txt string) {
	s.buf.WriteString(txt)
}

func (s *Solver) flush() error {
	if s.buf.Len() == 0 {
		return nil
	}
	txt := s.buf.String()
	s.buf.Reset()
	if s.log != nil {
		io.WriteString(s.log, txt)
	}
	_, err := io.WriteString(s.in, txt)
	return err
}

// sync flushes pending commands and waits for an echo marker; any error line
// seen before the marker is returned.
func (s *Solver) sync() error {
	s.send("(echo \"@@sync\")\n")
	if err := s.flush(); err != nil {
		return err
	}
	var errs []string
	for {
		line, err := s.out.ReadString('\n')
		if err != nil {
			return fmt.Errorf("solver died: %v %s", err, strings.Join(errs, ";"))
		}
		line = strings.TrimSpace(line)
		if line == "@@sync" || line == "\"@@sync\"" {
			break
		}
		if strings.Contains(line, "error") {
			errs = append(errs, line)
		}
	}
	if len(errs) > 0 {
		return fmt.Errorf("solver error: %s", strings.Join(errs, "; "))
	}
	return nil
}

// define makes sure t (and everything below it) has a definition in the
// current scope and returns the text by which it can be referenced.
func (s *Solver) define(t *Term) string {
	if t.op == opVar {
		s.declare(t)
		return t.ref()
	}
	if t.op == opConst {
		return t.ref()
	}
	if s.defined[t.id] {
		return t.ref()
	}
	// iterative post-order to avoid deep recursion on long chains
	type item struct {
		t    *Term
		done bool
	}
	stack := []item{{t, false}}
	for len(stack) > 0 {
		it := stack[len(stack)-1]
		stack = stack[:len(stack)-1]
		if it.t.op == opVar {
			s.declare(it.t)
			continue
		}
		if it.t.op == opConst || s.defined[it.t.id] {
			continue
		}
		if it.done {
			s.defined[it.t.id] = true
			// a named constant constrained by an equation, not a define-fun:
			// z3 4.8.12 expands define-fun macros at every use, which is
			// exponential on shared sub-terms (measured 14x slower).
			s.send(fmt.Sprintf("(declare-const t%d %s)\n(assert (= t%d %s))\n", it.t.id, sortOf(it.t.w), it.t.id, it.t.body()))
			continue
		}
		stack = append(stack, item{it.t, true})
		for _, a := range it.t.args {
			stack = append(stack, item{a, false})
		}
	}
	return t.ref()
}

func (s *Solver) declare(v *Term) {
	if s.declared[v.name] {
		return
	}
	s.declared[v.name] = true
	s.send(fmt.Sprintf("(declare-const %s %s)\n", v.name, sortOf(v.w)))
}

// BeginPath opens the scope of one path. Everything declared or defined
// inside it is popped at EndPath.
func (s *Solver) BeginPath() {
	s.send("(push)\n")
	s.defined = map[int]bool{}
	s.declared = map[string]bool{}
}

// EndPath closes it.
func (s *Solver) EndPath() error {
	s.send("(pop)\n")
	return s.sync()
}

// Assert adds t to the path condition.
func (s *Solver) Assert(t *Term) {
	r := s.define(t)
	s.send("(assert " + r + ")\n")
}

type SatResult int

const (
	Sat SatResult = iota
	Unsat
	Unknown
)

func (r SatResult) String() string { return [...]string{"sat", "unsat", "unknown"}[r] }

// Check asks whether PC ∧ extra is satisfiable. Definitions introduced for
// `extra` are emitted before the inner push so they stay valid for the rest of
// the path. If sat and vars is non-empty, the model values of vars are returned.
func (s *Solver) Check(extra *Term, vars []*Term) (SatResult, map[string]uint64, error) {
	start := time.Now()
	defer func() { s.Time += time.Since(start); s.Queries++ }()
	var r string
	if extra != nil {
		r = s.define(extra)
		s.send("(push)\n(assert " + r + ")\n")
	}
	s.send("(check-sat)\n")
	if err := s.flush(); err != nil {
		return Unknown, nil, err
	}
	res, err := s.readResult()
	if err != nil {
		return Unknown, nil, err
	}
	var model map[string]uint64
	if res == Sat {
		var dv []*Term
		for _, v := range vars {
			if s.declared[v.name] {
				dv = append(dv, v)
			}
		}
		model = map[string]uint64{}
		if len(dv) > 0 {
			model, err = s.getValues(dv)
			if err != nil {
				return Unknown, nil, err
			}
		}
	}
	if extra != nil {
		s.send("(pop)\n")
	}
	switch res {
	case Sat:
		s.NSat++
	case Unsat:
		s.NUnsat++
	default:
		s.NUnknown++
	}
	return res, model, nil
}

func (s *Solver) readResult() (SatResult, error) {
	for {
		line, err := s.out.ReadString('\n')
		if err != nil {
			return Unknown, fmt.Errorf("solver died: %v", err)
		}
		line = strings.TrimSpace(line)
		switch line {
		case "sat":
			return Sat, nil
		case "unsat":
			return Unsat, nil
		case "unknown", "timeout":
			return Unknown, nil
		case "":
			continue
		}
		if strings.Contains(line, "error") {
			// resynchronise, then report
			s.sync()
			return Unknown, fmt.Errorf("solver error: %s", line)
		}
	}
}

func (s *Solver) getValues(vars []*Term) (map[string]uint64, error) {
	var sb strings.Builder
	sb.WriteString("(get-value (")
	for i, v := range vars {
		if i > 0 {
			sb.WriteByte(' ')
		}
		sb.WriteString(v.name)
	}
	sb.WriteString("))\n(echo \"@@gv\")\n")
	s.send(sb.String())
	if err := s.flush(); err != nil {
		return nil, err
	}
	var all strings.Builder
	for {
		line, err := s.out.ReadString('\n')
		if err != nil {
			return nil, fmt.Errorf("solver died: %v", err)
		}
		t := strings.TrimSpace(line)
		if t == "@@gv" || t == "\"@@gv\"" {
			break
		}
		all.WriteString(line)
	}
	txt := all.String()
	if strings.Contains(txt, "(error") {
		return nil, fmt.Errorf("solver error in get-value: %s", txt)
	}
	model := map[string]uint64{}
	// parse pairs "(name value)"
	toks := tokenize(txt)
	for i := 0; i+1 < len(toks); i++ {
		name := toks[i]
		if len(name) < 2 || !(name[0] == 'b' || name[0] == 'q' || name[0] == 'i') {
			continue
		}
		if _, err := strconv.Atoi(name[1:]); err != nil {
			continue
		}
		val := toks[i+1]
		switch {
		case val == "true":
			model[name] = 1
		case val == "false":
			model[name] = 0
		case strings.HasPrefix(val, "#x"):
			v, err := strconv.ParseUint(val[2:], 16, 64)
			if err != nil {
				return nil, err
			}
			model[name] = v
		case strings.HasPrefix(val, "#b"):
			v, err := strconv.ParseUint(val[2:], 2, 64)
			if err != nil {
				return nil, err
			}
			model[name] = v
		case val == "_" && i+2 < len(toks) && strings.HasPrefix(toks[i+2], "bv"):
			v, err := strconv.ParseUint(toks[i+2][2:], 10, 64)
			if err != nil {
				return nil, err
			}
			model[name] = v
		default:
			continue
		}
		i++
	}
	return model, nil
}

func tokenize(s string) []string {
	var toks []string
	cur := strings.Builder{}
	flushTok := func() {
		if cur.Len() > 0 {
			toks = append(toks, cur.String())
			cur.Reset()
		}
	}
	for _, r := range s {
		switch r {
		case '(', ')', ' ', '\n', '\t', '\r':
			flushTok()
		default:
			cur.WriteRune(r)
		}
	}
	flushTok()
	return toks
}
