package interp

// Package os over the in-memory FS, and the environment.

import (
	"fmt"
	"go/types"
	"sort"
	"strings"
)

const (
	oWRONLY = 0x1
	oRDWR   = 0x2
	oAPPEND = 0x400
	oCREATE = 0x40
	oTRUNC  = 0x200
	oEXCL   = 0x80
)

func init() {
	for k, v := range map[string]externalFn{
		"os.MkdirAll":  extMkdirAll,
		"os.OpenFile":  extOpenFile,
		"os.ReadFile":  extReadFile,
		"os.WriteFile": extWriteFile,
		"os.ReadDir":   extReadDir,
		"os.Remove":    extRemove,
		"os.Stat":      extStat,
		"os.Open":      func(fr *frame, args []value) value { return extOpenFile(fr, []value{args[0], 0, uint32(0)}) },
		"os.Create": func(fr *frame, args []value) value {
			return extOpenFile(fr, []value{args[0], oRDWR | oCREATE | oTRUNC, uint32(0o666)})
		},
		"(*os.File).Readdirnames": extReaddirnames,
		"(*os.File).Name":         func(fr *frame, args []value) value { return fr.i.fileOf(args[0], "Name").path },
		"os.Lstat":                extLstat,
		"os.Readlink":             extReadlink,
		"os.IsPathSeparator": func(fr *frame, args []value) value {
			return fr.i.truth(equalsT(fr.i, types.Typ[types.Uint8], args[0], uint8('/')))
		},
		"os.IsNotExist":       extIsNotExist,
		"os.Getenv":           extGetenv,
		"os.LookupEnv":        extLookupEnv,
		"(*os.File).Write":    extFileWrite,
		"(*os.File).Read":     extFileRead,
		"(*os.File).Seek":     extFileSeek,
		"(*os.File).Truncate": extFileTruncate,
		"(*os.File).Stat":     extFileStat,
		"(*os.File).Close":    extFileClose,
		"(*os.File).WriteString": func(fr *frame, args []value) value {
			return extFileWrite(fr, []value{args[0], strBytes(args[1])})
		},
		// the working directory is some directory unrelated to the test file
		// (the native twin changes into a temporary directory: vxrt.Chdir)
		"os.Getwd": func(fr *frame, args []value) value { return tuple{"/cwd/elsewhere", nilErr()} },
	} {
		externals[k] = v
	}
}

func nilErr() value { return iface{} }

func (i *interpreter) fsErr(op string, path value) value {
	e := i.mkError(op + " " + toString(path) + ": file system error")
	if strings.Contains(op, "no such") {
		T := i.namedType(vxPkg, "Err")
		setField(e.(iface).v.(*value), T, "NotExist", true)
	}
	return e
}

func extStat(fr *frame, args []value) value {
	i := fr.i
	i.yield()
	fs := i.path.fs
	fs.reads++
	if i.fsFault("stat") {
		return tuple{iface{}, i.fsErr("stat", args[0])}
	}
	dir, name := i.splitPath(args[0])
	T := i.namedType(vxPkg, "FileInfo")
	if fs.isDirPath(i, dir, name) {
		p := newStruct(T)
		setField(p, T, "N", name)
		setField(p, T, "Dir", true)
		return tuple{iface{t: types.NewPointer(T), v: p}, nilErr()}
	}
	n := fs.find(i, dir, name)
	if n == nil {
		return tuple{iface{}, i.fsErr("stat (no such file or directory)", args[0])}
	}
	p := newStruct(T)
	setField(p, T, "N", n.name)
	setField(p, T, "Sz", int64(len(n.data)))
	return tuple{iface{t: types.NewPointer(T), v: p}, nilErr()}
}

// extLstat: like Stat, except that a symbolic link itself is reported as such.
func extLstat(fr *frame, args []value) value {
	i := fr.i
	fs := i.path.fs
	if len(fs.links) > 0 {
		dir, name := i.splitPath(args[0])
		if ns, ok := name.(string); ok {
			full := dir + "/" + ns
			if dir == "/" {
				full = "/" + ns
			}
			if _, isLink := fs.links[full]; isLink {
				i.yield()
				T := i.namedType(vxPkg, "FileInfo")
				p := newStruct(T)
				setField(p, T, "N", name)
				setField(p, T, "Link", true)
				return tuple{iface{t: types.NewPointer(T), v: p}, nilErr()}
			}
		}
	}
	return extStat(fr, args)
}

func extReadlink(fr *frame, args []value) value {
	i := fr.i
	i.yield()
	fs := i.path.fs
	dir, name := i.splitPath(args[0])
	if ns, ok := name.(string); ok {
		full := dir + "/" + ns
		if dir == "/" {
			full = "/" + ns
		}
		if t, isLink := fs.links[full]; isLink {
			return tuple{t, nilErr()}
		}
	}
	return tuple{"", i.fsErr("readlink (invalid argument)", args[0])}
}

func extIsNotExist(fr *frame, args []value) value {
	i := fr.i
	err := args[0].(iface)
	T := i.namedType(vxPkg, "Err")
	for depth := 0; depth < 20 && err.t != nil; depth++ {
		if p, ok := err.t.(*types.Pointer); ok && types.Identical(p.Elem(), T) {
			return getField(err.v.(*value), T, "NotExist")
		}
		m := findMethod(i, err.t, "Unwrap")
		if m == nil {
			return false
		}
		err = call(i, fr, fr.callpos, m, []value{err.v}).(iface)
	}
	return false
}

func extMkdirAll(fr *frame, args []value) value {
	i := fr.i
	i.yield()
	fs := i.path.fs
	if i.fsFault("mkdirall") {
		return i.fsErr("mkdir", args[0])
	}
	dir, name := i.splitPath(args[0])
	ns, ok := name.(string)
	if !ok {
		bs := strBytes(name)
		b := make([]byte, len(bs))
		for k := range bs {
			b[k] = byte(i.concretize(byteTerm(i, bs[k])))
		}
		ns = string(b)
	}
	full := dir + "/" + ns
	if dir == "/" {
		full = "/" + ns
	}
	if ns == "" {
		full = dir
	}
	if n := fs.find(i, dir, ns); n != nil {
		return i.fsErr("mkdir (not a directory)", args[0])
	}
	fs.mkdirAll(full)
	return nilErr()
}

func (i *interpreter) newFileHandle(of *openFile) *value {
	T := i.namedType("os", "File")
	p := newStruct(T)
	i.path.fs.open[p] = of
	return p
}

func extOpenFile(fr *frame, args []value) value {
	i := fr.i
	i.yield()
	fs := i.path.fs
	flag := int(asInt64(i, args[1]))
	nilFile := (*value)(nil)
	if i.fsFault("open") {
		return tuple{nilFile, i.fsErr("open", args[0])}
	}
	dir, name := i.splitPath(args[0])
	if fs.isDirPath(i, dir, name) {
		if flag&(oWRONLY|oRDWR) != 0 {
			return tuple{nilFile, i.fsErr("open (is a directory)", args[0])}
		}
		full := dir
		if ns, _ := name.(string); ns != "" {
			full = fs.canon(dir + "/" + ns)
		}
		return tuple{i.newFileHandle(&openFile{isDir: true, dirPath: full, rd: true, path: args[0]}), nilErr()}
	}
	if nameTooLong(name) {
		return tuple{nilFile, i.fsErr("open (file name too long)", args[0])}
	}
	n := fs.find(i, dir, name)
	if n == nil {
		if flag&oCREATE == 0 || !fs.dirs[dir] {
			return tuple{nilFile, i.fsErr("open (no such file or directory)", args[0])}
		}
		n = fs.create(dir, name)
	} else if flag&oEXCL != 0 && flag&oCREATE != 0 {
		return tuple{nilFile, i.fsErr("open (file exists)", args[0])}
	}
	if flag&oTRUNC != 0 && len(n.data) > 0 {
		n.data = nil
		n.muts++
		fs.logOp("truncate %s/%s", dir, toString(name))
	}
	of := &openFile{node: n, app: flag&oAPPEND != 0, rd: flag&oWRONLY == 0, wr: flag&(oWRONLY|oRDWR) != 0, path: args[0]}
	return tuple{i.newFileHandle(of), nilErr()}
}

func extReadFile(fr *frame, args []value) value {
	i := fr.i
	i.yield()
	fs := i.path.fs
	fs.reads++
	if i.fsFault("readfile") {
		return tuple{[]value(nil), i.fsErr("read", args[0])}
	}
	dir, name := i.splitPath(args[0])
	if nameTooLong(name) {
		return tuple{[]value(nil), i.fsErr("open (file name too long)", args[0])}
	}
	n := fs.find(i, dir, name)
	if n == nil {
		return tuple{[]value(nil), i.fsErr("open (no such file or directory)", args[0])}
	}
	out := make([]value, len(n.data))
	copy(out, n.data)
	return tuple{out, nilErr()}
}

func extWriteFile(fr *frame, args []value) value {
	i := fr.i
	i.yield()
	fs := i.path.fs
	if i.fsFault("writefile") {
		return i.fsErr("write", args[0])
	}
	dir, name := i.splitPath(args[0])
	if nameTooLong(name) {
		return i.fsErr("open (file name too long)", args[0])
	}
	if !fs.dirs[dir] || fs.isDirPath(i, dir, name) {
		return i.fsErr("open (no such file or directory)", args[0])
	}
	n := fs.find(i, dir, name)
	if n == nil {
		n = fs.create(dir, name)
	}
	data := args[1].([]value)
	n.data = append([]value(nil), data...)
	n.muts++
	fs.logOp("writefile %s/%s (%d bytes)", dir, toString(name), len(data))
	return nilErr()
}

func extRemove(fr *frame, args []value) value {
	i := fr.i
	i.yield()
	fs := i.path.fs
	if i.fsFault("remove") {
		return i.fsErr("remove", args[0])
	}
	dir, name := i.splitPath(args[0])
	n := fs.find(i, dir, name)
	if n == nil {
		if fs.isDirPath(i, dir, name) {
			full := fs.canon(dir + "/" + name.(string))
			files, subs := fs.listDir(full)
			if len(files)+len(subs) > 0 {
				return i.fsErr("remove (directory not empty)", args[0])
			}
			delete(fs.dirs, full)
			fs.logOp("rmdir %s", full)
			return nilErr()
		}
		return i.fsErr("remove (no such file or directory)", args[0])
	}
	n.gone = true
	fs.logOp("remove %s/%s", dir, toString(name))
	return nilErr()
}

func extReadDir(fr *frame, args []value) value {
	i := fr.i
	i.yield()
	fs := i.path.fs
	fs.reads++
	dirv := args[0]
	ds, ok := dirv.(string)
	if !ok {
		d, nm := i.splitPath(dirv)
		bs := strBytes(nm)
		b := make([]byte, len(bs))
		for k := range bs {
			b[k] = byte(i.concretize(byteTerm(i, bs[k])))
		}
		ds = d + "/" + string(b)
	}
	ds = fs.canon(ds)
	T := i.namedType(vxPkg, "DirEntry")
	deT := i.namedType("io/fs", "DirEntry")
	_ = deT
	if i.fsFault("readdir") || !fs.dirs[ds] {
		return tuple{[]value(nil), i.fsErr("open (no such directory)", dirv)}
	}
	files, subs := fs.listDir(ds)
	type ent struct {
		name  value
		isDir bool
	}
	var ents []ent
	for _, f := range files {
		ents = append(ents, ent{f.name, false})
	}
	for _, s := range subs {
		ents = append(ents, ent{s, true})
	}
	// sort by name; symbolic names are ordered by deciding comparisons
	sort.SliceStable(ents, func(a, b int) bool {
		return i.truth(strLessTerm(i, ents[a].name, ents[b].name))
	})
	out := make([]value, len(ents))
	for k, e := range ents {
		p := newStruct(T)
		setField(p, T, "N", e.name)
		setField(p, T, "Dir", e.isDir)
		out[k] = iface{t: types.NewPointer(T), v: p}
	}
	return tuple{out, nilErr()}
}

func (i *interpreter) fileOf(v value, op string) *openFile {
	p, _ := v.(*value)
	if p == nil {
		panic(targetPanic{"invalid argument: nil *os.File in " + op})
	}
	of := i.path.fs.open[p]
	if of == nil {
		i.abort("unknown *os.File in %s", op)
	}
	return of
}

func extFileWrite(fr *frame, args []value) value {
	i := fr.i
	i.yield()
	fs := i.path.fs
	of := i.fileOf(args[0], "Write")
	data := args[1].([]value)
	if of.closed || !of.wr || of.isDir {
		return tuple{0, i.mkError("write: bad file descriptor")}
	}
	if i.fsFault("write") {
		return tuple{0, i.mkError("write: input/output error")}
	}
	n := of.node
	off := of.off
	if of.app {
		off = len(n.data)
	}
	for len(n.data) < off {
		n.data = append(n.data, byte(0))
	}
	nd := append([]value(nil), n.data[:off]...)
	nd = append(nd, data...)
	if off+len(data) < len(n.data) {
		nd = append(nd, n.data[off+len(data):]...)
	}
	n.data = nd
	n.muts++
	of.off = off + len(data)
	fs.logOp("write %s/%s at %d (%d bytes)", n.dir, toString(n.name), off, len(data))
	return tuple{len(data), nilErr()}
}

func extFileRead(fr *frame, args []value) value {
	i := fr.i
	i.yield()
	of := i.fileOf(args[0], "Read")
	buf := args[1].([]value)
	if of.closed || !of.rd || of.isDir {
		return tuple{0, i.mkError("read: bad file descriptor")}
	}
	if i.fsFault("read") {
		return tuple{0, i.mkError("read: input/output error")}
	}
	i.path.fs.reads++
	n := of.node
	if len(buf) == 0 {
		return tuple{0, nilErr()}
	}
	if of.off >= len(n.data) {
		eof := *i.globalAddr(i.prog.ImportedPackage("io").Var("EOF"))
		return tuple{0, eof}
	}
	k := copy(buf, n.data[of.off:])
	of.off += k
	return tuple{k, nilErr()}
}

func extFileSeek(fr *frame, args []value) value {
	i := fr.i
	of := i.fileOf(args[0], "Seek")
	off := asInt64(i, args[1])
	whence := int(asInt64(i, args[2]))
	var base int64
	switch whence {
	case 0:
	case 1:
		base = int64(of.off)
	case 2:
		base = int64(len(of.node.data))
	}
	if base+off < 0 {
		return tuple{int64(0), i.mkError("seek: invalid argument")}
	}
	of.off = int(base + off)
	return tuple{int64(of.off), nilErr()}
}

func extFileTruncate(fr *frame, args []value) value {
	i := fr.i
	i.yield()
	fs := i.path.fs
	of := i.fileOf(args[0], "Truncate")
	size := int(asInt64(i, args[1]))
	if of.closed || !of.wr {
		return i.mkError("truncate: invalid argument")
	}
	if i.fsFault("truncate") {
		return i.mkError("truncate: input/output error")
	}
	n := of.node
	if size < len(n.data) {
		n.data = append([]value(nil), n.data[:size]...)
	} else {
		for len(n.data) < size {
			n.data = append(n.data, byte(0))
		}
	}
	n.muts++
	fs.logOp("truncate %s/%s to %d", n.dir, toString(n.name), size)
	return nilErr()
}

func extFileStat(fr *frame, args []value) value {
	i := fr.i
	of := i.fileOf(args[0], "Stat")
	if i.fsFault("stat") {
		return tuple{iface{}, i.mkError("stat: input/output error")}
	}
	T := i.namedType(vxPkg, "FileInfo")
	p := newStruct(T)
	if of.isDir {
		setField(p, T, "Dir", true)
		setField(p, T, "N", of.dirPath)
		return tuple{iface{t: types.NewPointer(T), v: p}, nilErr()}
	}
	setField(p, T, "Sz", int64(len(of.node.data)))
	setField(p, T, "N", of.node.name)
	return tuple{iface{t: types.NewPointer(T), v: p}, nilErr()}
}

func extFileClose(fr *frame, args []value) value {
	i := fr.i
	of := i.fileOf(args[0], "Close")
	if of.closed {
		return i.mkError("close: file already closed")
	}
	of.closed = true
	return nilErr()
}

// ---- environment

// envValue returns the (possibly symbolic) value of an environment variable
// for this path. The harness configures the shape through vxrt.Env*, or the
// defaults below apply.
func (i *interpreter) envValue(name string) (value, value) {
	p := i.path
	if v, ok := p.env[name]; ok {
		return v, p.env["?"+name]
	}
	spec, ok := i.envSpecs()[name]
	if !ok {
		// unspecified variables are unset
		p.env[name] = ""
		p.env["?"+name] = false
		return "", false
	}
	var val value = ""
	var present value = true
	switch spec.Kind {
	case "fixed":
		val = spec.Value
	case "unset":
		present = false
	case "symbolic":
		// symbolic length 0..Max and symbolic bytes; length is a choice
		n := i.choose(spec.Max + 1)
		bs := make([]value, n)
		var ts []*Term
		for k := range bs {
			t := i.freshByte("env:" + name)
			bs[k] = t
			ts = append(ts, t)
			// environment strings contain no NUL
			i.assume(i.tb.Not(i.tb.Eq(t, i.tb.BV(8, 0))))
		}
		val = mkstr(bs)
		p.envLog[name] = ts
		if n == 0 {
			p.envLog[name] = []*Term{}
		}
	case "present":
		// presence symbolic, value irrelevant (empty)
		b := i.freshBool("envset:" + name)
		p.inputs = append(p.inputs, InputRec{Kind: "envset", Label: name, Terms: []*Term{b}})
		present = norm(types.Typ[types.Bool], b)
	}
	p.env[name] = val
	p.env["?"+name] = present
	return val, present
}

func extGetenv(fr *frame, args []value) value {
	name, ok := args[0].(string)
	if !ok {
		fr.i.abort("os.Getenv with symbolic name")
	}
	v, present := fr.i.envValue(name)
	if pb, ok := present.(bool); ok {
		if !pb {
			return ""
		}
		return v
	}
	if fr.i.truth(present) {
		return v
	}
	return ""
}

func extLookupEnv(fr *frame, args []value) value {
	name, ok := args[0].(string)
	if !ok {
		fr.i.abort("os.LookupEnv with symbolic name")
	}
	v, present := fr.i.envValue(name)
	return tuple{v, present}
}

// EnvSpec describes how an environment variable is modelled.
type EnvSpec struct {
	Kind  string // fixed | unset | symbolic | present
	Value string
	Max   int
}

var _ = fmt.Sprintf

func extReaddirnames(fr *frame, args []value) value {
	i := fr.i
	of := i.fileOf(args[0], "Readdirnames")
	if !of.isDir {
		return tuple{[]value(nil), i.mkError("readdirent: not a directory")}
	}
	files, subs := i.path.fs.listDir(of.dirPath)
	var out []value
	for _, f := range files {
		out = append(out, f.name)
	}
	for _, s := range subs {
		out = append(out, s)
	}
	return tuple{out, nilErr()}
}
