package interp

// A small model of unsafe.Pointer, sufficient for the reinterpretation
// shapes used by tidwall/gjson and tidwall/sjson:
//
//	[]byte  <-> string            *(*string)(unsafe.Pointer(&b)) and back via headers
//	string  ->  stringHeader      *(*stringHeader)(unsafe.Pointer(&s))
//	header  ->  []byte / string   *(*[]byte)(unsafe.Pointer(&sliceHeader{...}))
//	data pointer subtraction      uintptr(sub.data) - uintptr(parent.data)
//
// Strings produced from a byte slice by such a cast alias the slice's backing
// array (this is the channel through which in-place JSON replacement reaches
// the caller's buffer, so it must be exact).

import (
	"fmt"
	"go/types"
	"unsafe"
)

// uptr is the interpreter's unsafe.Pointer.
type uptr struct {
	p    *value     // pointer to a typed cell, with its pointee type t
	t    types.Type //
	data *dataPtr   // or: a raw data pointer of a string / byte slice
}

type dataPtr struct {
	arr   []value // backing store from this position on (cap preserved)
	gostr string  // or: a host string (concrete, immutable)
	isGo  bool
}

func (u uptr) isNil() bool {
	return u.p == nil && u.data == nil
}

// headerKind: 1 = struct{unsafe.Pointer; int}, 2 = struct{unsafe.Pointer; int; int}.
func headerKind(t types.Type) int {
	st, ok := t.Underlying().(*types.Struct)
	if !ok || st.NumFields() < 2 || st.NumFields() > 3 {
		return 0
	}
	b, ok := st.Field(0).Type().Underlying().(*types.Basic)
	if !ok || b.Kind() != types.UnsafePointer {
		return 0
	}
	for k := 1; k < st.NumFields(); k++ {
		b, ok := st.Field(k).Type().Underlying().(*types.Basic)
		if !ok || b.Kind() != types.Int {
			return 0
		}
	}
	return st.NumFields() - 1
}

func isStringType(t types.Type) bool {
	b, ok := t.Underlying().(*types.Basic)
	return ok && b.Kind() == types.String
}

func isByteSlice(t types.Type) bool {
	s, ok := t.Underlying().(*types.Slice)
	if !ok {
		return false
	}
	b, ok := s.Elem().Underlying().(*types.Basic)
	return ok && b.Kind() == types.Byte
}

// viewOf extracts (data, len, cap) from a cell holding a string, a byte slice
// or a header struct.
func viewOf(i *interpreter, u uptr) (dataPtr, int, int) {
	v := *u.p
	switch {
	case isStringType(u.t):
		switch s := v.(type) {
		case string:
			return dataPtr{gostr: s, isGo: true}, len(s), len(s)
		case symstr:
			return dataPtr{arr: []value(s)}, len(s), len(s)
		}
	case isByteSlice(u.t):
		b := v.([]value)
		return dataPtr{arr: b}, len(b), cap(b)
	case headerKind(u.t) > 0:
		st := v.(structure)
		var d dataPtr
		switch x := st[0].(type) {
		case uptr:
			if x.data != nil {
				d = *x.data
			}
		case unsafe.Pointer:
			// nil
		}
		n := int(asInt64(i, st[1]))
		c := n
		if len(st) > 2 {
			c = int(asInt64(i, st[2]))
		}
		return d, n, c
	}
	i.abort("unsafe: cannot view a value of type %v", u.t)
	return dataPtr{}, 0, 0
}

// unsafeReinterpret implements (*dst)(u) for dst different from u's pointee type.
// The result points to a fresh cell (the code under test dereferences such
// pointers immediately).
func unsafeReinterpret(i *interpreter, dst types.Type, u uptr) value {
	if u.p == nil {
		i.abort("unsafe: reinterpretation of a raw data pointer as *%v", dst)
	}
	d, n, c := viewOf(i, u)
	cell := new(value)
	switch {
	case headerKind(dst) > 0:
		st := zero(dst).(structure)
		if d.isGo || d.arr != nil || n > 0 {
			dd := d
			st[0] = uptr{data: &dd}
		} else {
			st[0] = uptr{}
		}
		st[1] = n
		if len(st) > 2 {
			st[2] = c
		}
		*cell = st
	case isStringType(dst):
		if d.isGo {
			*cell = d.gostr[:n]
		} else if n == 0 {
			*cell = ""
		} else {
			*cell = symstr(d.arr[:n])
		}
	case isByteSlice(dst):
		if d.isGo {
			// bytes of an immutable host string: a private copy, guarded against writes
			out := make([]value, n)
			for k := 0; k < n; k++ {
				out[k] = d.gostr[k]
			}
			for k := range out {
				i.path.roCells[&out[k]] = true
			}
			*cell = out
		} else if d.arr == nil {
			*cell = []value(nil)
		} else {
			*cell = d.arr[:n:c]
		}
	default:
		i.abort("unsupported unsafe.Pointer reinterpretation: %v -> *%v", u.t, dst)
	}
	return cell
}

func unsafeToPtr(i *interpreter, t_dst types.Type, x value) value {
	u, ok := x.(uptr)
	if !ok {
		if p, isP := x.(unsafe.Pointer); isP && p == nil {
			return zero(t_dst)
		}
		i.abort("unsupported unsafe.Pointer conversion from %T", x)
	}
	if u.isNil() {
		return zero(t_dst)
	}
	dst := mustDeref(t_dst)
	if u.p != nil && types.Identical(dst, u.t) {
		return u.p
	}
	return unsafeReinterpret(i, dst, u)
}

// ptrAddr gives a data pointer a number such that pointers into the same
// backing array differ by their offset.
func (i *interpreter) ptrAddr(u uptr) uintptr {
	if u.isNil() {
		return 0
	}
	if u.data == nil {
		// a typed cell (&s[k] of a slice of strings, structs, ...): cells of one backing array are
		// host-adjacent, 16 bytes apart; scaled to a stride of 64 so that range-overlap tests of the
		// form  &a[0] <= &b[last] + (Sizeof(elem)-1)  (slices.Insert and friends) are exact for
		// elements of up to 64 bytes: true iff the two ranges share a cell
		return (uintptr(unsafe.Pointer(u.p)) >> 4) << 6
	}
	d := u.data
	if d.isGo {
		return uintptr(unsafe.Pointer(unsafe.StringData(d.gostr)))
	}
	if cap(d.arr) == 0 {
		return 0
	}
	full := d.arr[:cap(d.arr)]
	key := &full[len(full)-1]
	tab, _ := i.path.extra["arrbase"].(map[*value]uintptr)
	if tab == nil {
		tab = map[*value]uintptr{}
		i.path.extra["arrbase"] = tab
	}
	base, ok := tab[key]
	if !ok {
		base = uintptr(len(tab)+1) << 40
		tab[key] = base
	}
	// end of array is at base + 2^32; this element is cap(d.arr) before the end
	return base + (1 << 32) - uintptr(cap(d.arr))
}

var _ = fmt.Sprint
