package interp

// Path exploration by re-execution with decision prefixes.

import (
	"fmt"
	"go/token"
	"go/types"
	"os"
	"runtime"
	"sort"
	"strings"
	"sync"
	"time"

	"golang.org/x/tools/go/ssa"
)

// Decision is one element of a path vector.
type Decision struct {
	Kind   uint8  `json:"k"` // 0 branch, 1 value (concretisation), 2 choice
	Val    bool   `json:"v,omitempty"`
	Forced bool   `json:"f,omitempty"`
	V      uint64 `json:"n,omitempty"`
}

const (
	dBranch = 0
	dValue  = 1
	dChoice = 2
)

type workItem struct {
	prefix []Decision
	model  map[string]uint64
}

// InputRec records one harness input (x.Byte, x.Bool, x.Len, …) of a path.
type InputRec struct {
	Kind  string  `json:"kind"`
	Label string  `json:"label,omitempty"`
	Terms []*Term `json:"-"`
	N     int     `json:"n,omitempty"`   // for choices: the value chosen
	Vals  []int   `json:"vals"`          // filled from the model when reported
	Str   string  `json:"str,omitempty"` // printable form for bytes
}

type Violation struct {
	Harness string            `json:"harness"`
	Label   string            `json:"label"`
	Msg     string            `json:"msg"`
	Inputs  []InputRec        `json:"inputs"`
	Env     map[string]string `json:"env,omitempty"`
	Trace   []Decision        `json:"trace"`
	PC      []string          `json:"pc,omitempty"`
	Log     []string          `json:"log,omitempty"`
}

type pathAbort struct {
	reason string
}

type pathEnd struct{} // normal early termination (assume failed, harness done)

func isControl(r interface{}) bool {
	switch r.(type) {
	case pathAbort, pathEnd, threadKill:
		return true
	}
	return false
}

// pathState is everything that belongs to one execution of the harness.
type pathState struct {
	prefix   []Decision
	pos      int
	trace    []Decision
	model    map[string]uint64
	memo     map[int]uint64
	lit      map[int]bool
	concrete map[int]uint64  // terms concretised on this path
	dom      map[int]*domain // exact value sets of 8-bit/Bool variables under the single-variable constraints
	ent      map[int]bool    // variables that occur in an asserted multi-variable constraint
	synced   int             // pc[:synced] has been sent to the solver
	open     bool            // solver scope of this path is open
	pc       []*Term
	vars     []*Term
	nBytes   int
	nBools   int
	nInts    int
	inputs   []InputRec
	steps    int
	maxSteps int
	inits    []string
	fs       *FS
	env      map[string]value // environment variables handed out
	envLog   map[string][]*Term
	reached  map[string]bool
	frozen   map[*value]string
	roCells  map[*value]bool
	log      []string
	sched    *sched
	decided  int
	asserts  int
	fns      map[*ssa.Function]bool
	externs  map[string]bool
	nativesU map[string]bool
	mapRange int
	violated bool
	extra    map[string]interface{}
	locks    map[*value]*lockState
	wgs      map[*value]*wgState
	stdout   []value
}

func (p *pathState) noteFn(fn *ssa.Function) {
	if p.fns != nil {
		p.fns[fn] = true
	}
}
func (p *pathState) noteExtern(n string) { p.externs[n] = true }
func (p *pathState) noteNative(n string) { p.nativesU[n] = true }

func (i *interpreter) noteMapRange(m *omap) {
	if m.n > 1 {
		i.path.mapRange++
	}
}

// Engine is the shared, read-only part: program, harness, options, results.
type Engine struct {
	Prog     *ssa.Program
	Harness  *ssa.Function
	Sizes    types.Sizes
	Opts     Options
	stubbed  map[string]bool
	allowFn  map[string]bool
	runtimeE types.Type

	globalOverrides map[string]func(i *interpreter) value

	stats      []fastStats
	mu         sync.Mutex
	cond       *sync.Cond
	work       []workItem
	active     int
	stop       bool
	Res        Result
	fnsCovered map[*ssa.Function]bool
	externsU   map[string]bool
	nativesU   map[string]bool
	reached    map[string]int
	inits      map[string]bool
}

type Options struct {
	Workers     int
	MaxSteps    int
	MaxPaths    int
	MaxViol     int
	SolverKind  string
	TimeoutMs   int
	Params      map[string]int // harness parameters (bounds), read by x.Param
	Trace       bool
	SampleEvery int
	Deadline    time.Time
	EnvSpec     map[string]EnvSpec
	FalseTwin   bool // replace every Assert by Assert(false): vacuity check
	Verbose     bool
}

type Sample struct {
	Trace  []Decision        `json:"trace"`
	PC     []string          `json:"path_condition"`
	Inputs []InputRec        `json:"inputs"`
	Env    map[string]string `json:"env,omitempty"`
	Out    string            `json:"outcome"`
	Digest string            `json:"digest,omitempty"`
}

type Result struct {
	Paths        int
	Assumed      int // paths cut by a failing Assume
	Decisions    int
	Forced       int
	Asserts      int
	Violations   []Violation
	Inconclusive []string
	Samples      []Sample
	Sat          int
	Unsat        int
	Unknown      int
	Queries      int
	SolverTime   time.Duration
	Wall         time.Duration
	MapRanges    int
	DomSat       int // feasibility answered by exact value-set enumeration (sat)
	DomUnsat     int // ... (unsat)
	CacheSat     int // feasibility answered by a cached model
	CrossChecked int // fast answers re-asked of z3 (all assertion queries, 1/64 of the rest); all agreed
	MaxTrace     int
	Steps        int64
}

func (e *Engine) stubbedPkg(path string) bool { return e.stubbed[path] }

func (e *Engine) push(items ...workItem) {
	e.mu.Lock()
	e.work = append(e.work, items...)
	e.mu.Unlock()
	e.cond.Broadcast()
}

func (e *Engine) pop() (workItem, bool) {
	e.mu.Lock()
	defer e.mu.Unlock()
	for {
		if e.stop {
			return workItem{}, false
		}
		if n := len(e.work); n > 0 {
			it := e.work[n-1]
			e.work = e.work[:n-1]
			e.active++
			return it, true
		}
		if e.active == 0 {
			e.cond.Broadcast()
			return workItem{}, false
		}
		e.cond.Wait()
	}
}

func (e *Engine) done() {
	e.mu.Lock()
	e.active--
	if e.active == 0 && len(e.work) == 0 {
		e.cond.Broadcast()
	}
	e.mu.Unlock()
}

// Run explores all paths of the harness.
func (e *Engine) Run() *Result {
	start := time.Now()
	e.cond = sync.NewCond(&e.mu)
	e.fnsCovered = map[*ssa.Function]bool{}
	e.externsU = map[string]bool{}
	e.nativesU = map[string]bool{}
	e.reached = map[string]int{}
	e.inits = map[string]bool{}
	e.work = []workItem{{}}
	var wg sync.WaitGroup
	n := e.Opts.Workers
	if n <= 0 {
		n = 1
	}
	e.stats = make([]fastStats, n)
	for w := 0; w < n; w++ {
		wg.Add(1)
		go func(id int) {
			defer wg.Done()
			e.worker(id)
		}(w)
	}
	wg.Wait()
	e.Res.Wall = time.Since(start)
	for _, st := range e.stats {
		e.Res.DomSat += st.domSat
		e.Res.DomUnsat += st.domUnsat
		e.Res.CacheSat += st.cacheSat
		e.Res.CrossChecked += st.crossChecked
	}
	return &e.Res
}

func (e *Engine) worker(id int) {
	solver, err := NewSolver(e.Opts.SolverKind, e.Opts.TimeoutMs)
	if err != nil {
		e.mu.Lock()
		e.Res.Inconclusive = append(e.Res.Inconclusive, "cannot start solver: "+err.Error())
		e.stop = true
		e.mu.Unlock()
		e.cond.Broadcast()
		return
	}
	defer solver.Close()
	i := &interpreter{
		eng:                e,
		prog:               e.Prog,
		sizes:              e.Sizes,
		runtimeErrorString: e.runtimeE,
		tb:                 newTermBank(),
		solver:             solver,
		id:                 id,
		trace:              e.Opts.Trace,
		scratch:            map[int]uint64{},
		fnInfos:            map[*ssa.Function]*fnInfo{},
	}
	for {
		it, ok := e.pop()
		if !ok {
			break
		}
		if len(i.tb.tab) > 2_000_000 {
			i.tb = newTermBank()
		}
		i.runPath(it)
		e.done()
		if !e.Opts.Deadline.IsZero() && time.Now().After(e.Opts.Deadline) {
			e.mu.Lock()
			if !e.stop {
				e.stop = true
				e.Res.Inconclusive = append(e.Res.Inconclusive, "time budget exhausted before the work-list was empty")
			}
			e.mu.Unlock()
			e.cond.Broadcast()
		}
	}
	e.mu.Lock()
	e.Res.Sat += solver.NSat
	e.Res.Unsat += solver.NUnsat
	e.Res.Unknown += solver.NUnknown
	e.Res.Queries += solver.Queries
	e.Res.SolverTime += solver.Time
	e.mu.Unlock()
}

// runPath executes the harness once along the given prefix.
func (i *interpreter) runPath(it workItem) {
	e := i.eng
	p := &pathState{
		prefix:   it.prefix,
		model:    it.model,
		memo:     map[int]uint64{},
		lit:      map[int]bool{},
		concrete: map[int]uint64{},
		dom:      map[int]*domain{},
		ent:      map[int]bool{},
		maxSteps: e.Opts.MaxSteps,
		env:      map[string]value{},
		envLog:   map[string][]*Term{},
		reached:  map[string]bool{},
		frozen:   map[*value]string{},
		roCells:  map[*value]bool{},
		fns:      map[*ssa.Function]bool{},
		externs:  map[string]bool{},
		nativesU: map[string]bool{},
		extra:    map[string]interface{}{},
		locks:    map[*value]*lockState{},
		wgs:      map[*value]*wgState{},
	}
	if p.model == nil {
		p.model = map[string]uint64{}
	}
	p.fs = newFS()
	i.path = p
	i.globals = map[*ssa.Global]*value{}
	i.inited = map[*ssa.Package]bool{}
	i.funcNames = map[*value]string{}

	outcome := "ok"
	var abortReason string
	func() {
		defer func() {
			r := recover()
			if r == nil {
				return
			}
			switch r := r.(type) {
			case pathAbort:
				outcome = "inconclusive"
				abortReason = r.reason
			case pathEnd:
				// fine
			case threadKill:
			default:
				// an unrecovered panic of the target (an explicit panic, or a run-time error of an
				// operation the interpreter performed on the target's behalf) is a failed assertion;
				// anything else is a limitation or fault of the interpreter itself: inconclusive
				_, isTarget := r.(targetPanic)
				_, isRuntime := r.(runtime.Error)
				if !isTarget && !isRuntime {
					outcome = "inconclusive"
					abortReason = "interpreter: " + panicString(r)
					break
				}
				msg := panicString(r)
				if !isTarget {
					msg += "\n" + shortStack()
				}
				i.reportViolation("panic", msg)
				outcome = "violation"
			}
		}()
		i.runMain()
	}()
	if p.sched != nil {
		p.sched.killAll()
	}
	if p.violated && outcome == "ok" {
		outcome = "violation"
	}
	if p.pos < len(p.prefix) && outcome == "ok" {
		outcome = "inconclusive"
		abortReason = "replay divergence: prefix not consumed"
	}
	if p.open {
		if err := i.solver.EndPath(); err != nil {
			outcome = "inconclusive"
			abortReason = err.Error()
		}
	}

	e.mu.Lock()
	defer e.mu.Unlock()
	r := &e.Res
	if outcome == "assumed" || p.extra["assumed"] != nil {
		r.Assumed++
	} else {
		r.Paths++
	}
	r.Decisions += p.decided
	r.Asserts += p.asserts
	r.MapRanges += p.mapRange
	r.Steps += int64(p.steps)
	if len(p.trace) > r.MaxTrace {
		r.MaxTrace = len(p.trace)
	}
	for fn := range p.fns {
		e.fnsCovered[fn] = true
	}
	for n := range p.externs {
		e.externsU[n] = true
	}
	for n := range p.nativesU {
		e.nativesU[n] = true
	}
	for n := range p.reached {
		e.reached[n]++
	}
	for _, n := range p.inits {
		e.inits[n] = true
	}
	if outcome == "inconclusive" {
		if len(r.Inconclusive) < 20 {
			r.Inconclusive = append(r.Inconclusive, abortReason)
		}
	}
	if e.Opts.MaxPaths > 0 && r.Paths >= e.Opts.MaxPaths && !e.stop {
		e.stop = true
		r.Inconclusive = append(r.Inconclusive, fmt.Sprintf("path budget of %d exhausted", e.Opts.MaxPaths))
		e.cond.Broadcast()
	}
	every := e.Opts.SampleEvery
	if every <= 0 {
		every = 1000
	}
	if len(r.Samples) < 30 && (r.Paths%every == 1 || r.Paths <= 2) && p.extra["assumed"] == nil {
		r.Samples = append(r.Samples, i.sample(outcome))
	}
}

func (i *interpreter) sample(outcome string) Sample {
	p := i.path
	s := Sample{Trace: append([]Decision(nil), p.trace...), Out: outcome}
	for k, t := range p.pc {
		if k >= 24 {
			s.PC = append(s.PC, fmt.Sprintf("… %d more", len(p.pc)-k))
			break
		}
		s.PC = append(s.PC, t.String())
	}
	s.Inputs, s.Env = i.concreteInputs(p.model)
	return s
}

// concreteInputs evaluates every recorded input under the model.
func (i *interpreter) concreteInputs(model map[string]uint64) ([]InputRec, map[string]string) {
	p := i.path
	memo := map[int]uint64{}
	out := make([]InputRec, len(p.inputs))
	for k, in := range p.inputs {
		o := InputRec{Kind: in.Kind, Label: in.Label, N: in.N}
		var sb []byte
		for _, t := range in.Terms {
			v := t.Eval(model, memo)
			o.Vals = append(o.Vals, int(v))
			sb = append(sb, byte(v))
		}
		if in.Kind == "bytes" {
			o.Str = fmt.Sprintf("%q", string(sb))
		}
		if o.Vals == nil {
			o.Vals = []int{}
		}
		out[k] = o
	}
	env := map[string]string{}
	for k, v := range p.extra {
		if len(k) > 9 && k[:9] == "envfixed:" {
			env[k[9:]] = v.(string)
		}
	}
	for name, ts := range p.envLog {
		var sb []byte
		for _, t := range ts {
			sb = append(sb, byte(t.Eval(model, memo)))
		}
		env[name] = string(sb)
	}
	return out, env
}

func (i *interpreter) runMain() {
	h := i.eng.Harness
	i.path.sched = newSched(i)
	call(i, nil, token.NoPos, h, nil)
	i.path.sched.mainDone()
}

func (i *interpreter) abort(format string, args ...interface{}) {
	panic(pathAbort{fmt.Sprintf(format, args...)})
}

// assertLit records that c has truth value v on this path.
func (i *interpreter) assertLit(c *Term, v bool, forced bool) {
	p := i.path
	p.lit[c.id] = v
	t := c
	if !v {
		t = i.tb.Not(c)
	}
	i.narrow(t)
	if forced {
		return
	}
	p.pc = append(p.pc, t)
}

func (i *interpreter) setModel(m map[string]uint64) {
	i.path.model = m
	i.path.memo = map[int]uint64{}
}

func copyTrace(tr []Decision, d Decision) []Decision {
	out := make([]Decision, len(tr)+1)
	copy(out, tr)
	out[len(tr)] = d
	return out
}

// decide returns the truth value of c on this path, forking if both are feasible.
func (i *interpreter) decide(c *Term) bool {
	if c.isConst() {
		return c.val != 0
	}
	p := i.path
	if v, ok := p.lit[c.id]; ok {
		return v
	}
	if c.op == opNot {
		if v, ok := p.lit[c.args[0].id]; ok {
			return !v
		}
		return !i.decide(c.args[0])
	}
	p.decided++
	if p.pos < len(p.prefix) {
		d := p.prefix[p.pos]
		if d.Kind != dBranch {
			i.abort("replay divergence: expected branch decision at %d", p.pos)
		}
		p.pos++
		p.trace = append(p.trace, d)
		i.assertLit(c, d.Val, d.Forced)
		return d.Val
	}
	v := c.Eval(p.model, p.memo) != 0
	other := c
	if v {
		other = i.tb.Not(c)
	}
	res, m2 := i.feasible(other, "branch feasibility")
	forced := res == Unsat
	if !forced {
		i.eng.push(workItem{prefix: copyTrace(p.trace, Decision{Kind: dBranch, Val: !v}), model: m2})
	} else {
		i.eng.mu.Lock()
		i.eng.Res.Forced++
		i.eng.mu.Unlock()
	}
	p.trace = append(p.trace, Decision{Kind: dBranch, Val: v, Forced: forced})
	i.assertLit(c, v, forced)
	return v
}

// concretize returns a concrete value for t, forking over all feasible values.
func (i *interpreter) concretize(t *Term) uint64 {
	if t.isConst() {
		return t.val
	}
	p := i.path
	// a term concretised earlier on this path keeps its value (this shortcut
	// depends only on the path history, never on the model, so that replays
	// of a prefix make the same sequence of decisions)
	if v, ok := p.concrete[t.id]; ok {
		return v
	}
	for {
		p.decided++
		if p.pos < len(p.prefix) {
			d := p.prefix[p.pos]
			if d.Kind != dValue {
				i.abort("replay divergence: expected value decision at %d", p.pos)
			}
			p.pos++
			p.trace = append(p.trace, d)
			c := i.tb.Eq(t, i.tb.BV(t.w, d.V))
			if c.isConst() {
				if (c.val != 0) != d.Val {
					i.abort("replay divergence: constant concretisation")
				}
			} else {
				i.assertLit(c, d.Val, d.Forced)
			}
			if d.Val {
				p.concrete[t.id] = d.V
				return d.V
			}
			continue
		}
		v := t.Eval(p.model, p.memo)
		c := i.tb.Eq(t, i.tb.BV(t.w, v))
		res, m2 := i.feasible(i.tb.Not(c), "concretisation")
		forced := res == Unsat
		if !forced {
			i.eng.push(workItem{prefix: copyTrace(p.trace, Decision{Kind: dValue, V: v, Val: false}), model: m2})
		}
		p.trace = append(p.trace, Decision{Kind: dValue, V: v, Val: true, Forced: forced})
		i.assertLit(c, true, forced)
		p.concrete[t.id] = v
		return v
	}
}

// choose picks one of n alternatives (no solver involved), forking over the rest.
func (i *interpreter) choose(n int) int {
	if n <= 1 {
		return 0
	}
	p := i.path
	if p.pos < len(p.prefix) {
		d := p.prefix[p.pos]
		if d.Kind != dChoice {
			i.abort("replay divergence: expected choice at %d", p.pos)
		}
		p.pos++
		p.trace = append(p.trace, d)
		return int(d.V)
	}
	items := make([]workItem, 0, n-1)
	for k := n - 1; k >= 1; k-- {
		items = append(items, workItem{prefix: copyTrace(p.trace, Decision{Kind: dChoice, V: uint64(k)}), model: p.model})
	}
	i.eng.push(items...)
	p.trace = append(p.trace, Decision{Kind: dChoice, V: 0})
	return 0
}

// assume restricts the path to c; ends the path if c is infeasible.
func (i *interpreter) assume(c value) {
	p := i.path
	switch c := c.(type) {
	case bool:
		if !c {
			p.extra["assumed"] = true
			panic(pathEnd{})
		}
	case *Term:
		if v, ok := p.lit[c.id]; ok {
			if !v {
				p.extra["assumed"] = true
				panic(pathEnd{})
			}
			return
		}
		if c.Eval(p.model, p.memo) != 0 {
			i.assertLit(c, true, false)
			return
		}
		res, m2 := i.feasible(c, "assume")
		if res == Unsat {
			p.extra["assumed"] = true
			panic(pathEnd{})
		}
		i.setModel(m2)
		i.assertLit(c, true, false)
	default:
		panic(fmt.Sprintf("assume: %T", c))
	}
}

// check is x.Assert: PC ∧ ¬c must be unsatisfiable.
func (i *interpreter) check(c value, label string) {
	p := i.path
	p.asserts++
	if i.eng.Opts.FalseTwin {
		c = false
	}
	switch c := c.(type) {
	case bool:
		if !c {
			i.reportViolationModel(label, "assertion failed on a path with concrete condition", p.model)
			panic(pathEnd{})
		}
	case *Term:
		if v, ok := p.lit[c.id]; ok {
			if v {
				return
			}
			i.reportViolationModel(label, "assertion is false on this path: "+c.String(), p.model)
			panic(pathEnd{})
		}
		if p.pos < len(p.prefix) {
			// still replaying the prefix: the path that created this item
			// already examined this assertion and continued under it
			i.assertLit(c, true, false)
			return
		}
		res, m2 := i.feasible(i.tb.Not(c), "assertion "+label)
		if res == Sat {
			i.reportViolationModel(label, "assertion can be false: "+c.String(), m2)
			// continue under the assumption that it held, if that is possible
			if c.Eval(p.model, p.memo) == 0 {
				r2, m3 := i.feasible(c, "continuation after assertion")
				if r2 == Unsat {
					panic(pathEnd{})
				}
				i.setModel(m3)
			}
			i.assertLit(c, true, false)
			return
		}
		i.assertLit(c, true, true)
	default:
		panic(fmt.Sprintf("check: %T", c))
	}
}

func (i *interpreter) reportViolation(label, msg string) {
	i.reportViolationModel(label, msg, i.path.model)
}

func (i *interpreter) reportViolationModel(label, msg string, model map[string]uint64) {
	p := i.path
	p.violated = true
	ins, env := i.concreteInputs(model)
	v := Violation{
		Harness: i.eng.Harness.Name(),
		Label:   label,
		Msg:     msg,
		Inputs:  ins,
		Env:     env,
		Trace:   append([]Decision(nil), p.trace...),
		Log:     append([]string(nil), p.log...),
	}
	for k, t := range p.pc {
		if k >= 40 {
			break
		}
		v.PC = append(v.PC, t.String())
	}
	e := i.eng
	e.mu.Lock()
	e.Res.Violations = append(e.Res.Violations, v)
	if e.Opts.MaxViol > 0 && len(e.Res.Violations) >= e.Opts.MaxViol {
		e.stop = true
		e.cond.Broadcast()
	}
	e.mu.Unlock()
	if e.Opts.Verbose {
		fmt.Fprintf(os.Stderr, "violation %s: %s\n", label, msg)
	}
}

// ---- fresh symbolic inputs

func (i *interpreter) freshByte(label string) *Term {
	p := i.path
	if p.nBytes >= poolBytes {
		i.abort("symbolic byte pool exhausted")
	}
	t := i.tb.Var(8, fmt.Sprintf("b%d", p.nBytes))
	p.nBytes++
	p.vars = append(p.vars, t)
	return t
}

func (i *interpreter) freshBool(label string) *Term {
	p := i.path
	if p.nBools >= poolBools {
		i.abort("symbolic bool pool exhausted")
	}
	t := i.tb.Var(0, fmt.Sprintf("q%d", p.nBools))
	p.nBools++
	p.vars = append(p.vars, t)
	return t
}

func (i *interpreter) freshInt(label string) *Term {
	p := i.path
	if p.nInts >= poolInts {
		i.abort("symbolic int pool exhausted")
	}
	t := i.tb.Var(64, fmt.Sprintf("i%d", p.nInts))
	p.nInts++
	p.vars = append(p.vars, t)
	return t
}

// Summary helpers for evidence.

func (e *Engine) FunctionsEncoded() []string {
	var out []string
	for fn := range e.fnsCovered {
		n := 0
		for _, b := range fn.Blocks {
			n += len(b.Instrs)
		}
		out = append(out, fmt.Sprintf("%s (%d instrs)", fn.String(), n))
	}
	sort.Strings(out)
	return out
}

func (e *Engine) RepoFunctionsEncoded(prefix string) []string {
	var out []string
	for _, s := range e.FunctionsEncoded() {
		if strings.Contains(s, prefix) {
			out = append(out, s)
		}
	}
	return out
}

func sortedKeys(m map[string]bool) []string {
	var out []string
	for k := range m {
		out = append(out, k)
	}
	sort.Strings(out)
	return out
}

func (e *Engine) ExternsUsed() []string { return sortedKeys(e.externsU) }
func (e *Engine) NativesUsed() []string { return sortedKeys(e.nativesU) }
func (e *Engine) InitsRun() []string    { return sortedKeys(e.inits) }
func (e *Engine) Reached() map[string]int {
	return e.reached
}
