package interp

// Symbolic terms: hash-consed QF_BV/Bool expressions with constant folding,
// an evaluator (used for model caching and replay) and an SMT-LIB2 printer.

import (
	"fmt"
	"strings"
)

type Op uint8

const (
	opVar Op = iota
	opConst
	opNot
	opAnd
	opOr
	opIte
	opEq
	opAdd
	opSub
	opMul
	opUdiv
	opUrem
	opSdiv
	opSrem
	opBand
	opBor
	opBxor
	opShl
	opLshr
	opAshr
	opBnot
	opNeg
	opUlt
	opUle
	opSlt
	opSle
	opZext
	opSext
	opExtract // val = hi<<8 | lo
	opConcat
)

var opSMT = map[Op]string{
	opNot: "not", opAnd: "and", opOr: "or", opIte: "ite", opEq: "=",
	opAdd: "bvadd", opSub: "bvsub", opMul: "bvmul", opUdiv: "bvudiv", opUrem: "bvurem",
	opSdiv: "bvsdiv", opSrem: "bvsrem", opBand: "bvand", opBor: "bvor", opBxor: "bvxor",
	opShl: "bvshl", opLshr: "bvlshr", opAshr: "bvashr", opBnot: "bvnot", opNeg: "bvneg",
	opUlt: "bvult", opUle: "bvule", opSlt: "bvslt", opSle: "bvsle", opConcat: "concat",
}

// Term is a symbolic expression. w == 0 means Bool, otherwise a bit-vector of width w.
type Term struct {
	op   Op
	w    int
	args []*Term
	val  uint64
	name string
	id   int
	vars []*Term // distinct variables below t (sorted by id); nil with many=true if more than maxVars
	many bool
}

const maxVars = 6

type termKey struct {
	op         Op
	w          int
	val        uint64
	name       string
	a0, a1, a2 int
}

type termBank struct {
	tab  map[termKey]*Term
	next int
	tt   *Term
	ff   *Term
}

func newTermBank() *termBank {
	b := &termBank{tab: map[termKey]*Term{}}
	b.tt = b.mk(opConst, 0, 1, "")
	b.ff = b.mk(opConst, 0, 0, "")
	return b
}

func (b *termBank) mk(op Op, w int, val uint64, name string, args ...*Term) *Term {
	k := termKey{op: op, w: w, val: val, name: name, a0: -1, a1: -1, a2: -1}
	if len(args) > 0 {
		k.a0 = args[0].id
	}
	if len(args) > 1 {
		k.a1 = args[1].id
	}
	if len(args) > 2 {
		k.a2 = args[2].id
	}
	if t, ok := b.tab[k]; ok {
		return t
	}
	t := &Term{op: op, w: w, val: val, name: name, id: b.next}
	if len(args) > 0 {
		t.args = append([]*Term(nil), args...)
	}
	if op == opVar {
		t.vars = []*Term{t}
	} else {
		for _, a := range args {
			if a.many {
				t.many = true
				break
			}
		}
		if !t.many {
			for _, a := range args {
				for _, v := range a.vars {
					found := false
					for _, u := range t.vars {
						if u == v {
							found = true
							break
						}
					}
					if !found {
						t.vars = append(t.vars, v)
					}
				}
			}
			if len(t.vars) > maxVars {
				t.vars, t.many = nil, true
			}
		}
	}
	b.next++
	b.tab[k] = t
	return t
}

func mask(w int) uint64 {
	if w >= 64 {
		return ^uint64(0)
	}
	return (uint64(1) << uint(w)) - 1
}

func (t *Term) isConst() bool { return t.op == opConst }
func (t *Term) isTrue() bool  { return t.op == opConst && t.w == 0 && t.val == 1 }
func (t *Term) isFalse() bool { return t.op == opConst && t.w == 0 && t.val == 0 }

func (b *termBank) Bool(v bool) *Term {
	if v {
		return b.tt
	}
	return b.ff
}
func (b *termBank) BV(w int, v uint64) *Term { return b.mk(opConst, w, v&mask(w), "") }
func (b *termBank) Var(w int, name string) *Term {
	return b.mk(opVar, w, 0, name)
}

func sext64(v uint64, w int) int64 {
	if w >= 64 {
		return int64(v)
	}
	sh := uint(64 - w)
	return int64(v<<sh) >> sh
}

func (b *termBank) Not(x *Term) *Term {
	if x.isConst() {
		return b.Bool(x.val == 0)
	}
	if x.op == opNot {
		return x.args[0]
	}
	return b.mk(opNot, 0, 0, "", x)
}

func (b *termBank) And(x, y *Term) *Term {
	if x.isFalse() || y.isFalse() {
		return b.ff
	}
	if x.isTrue() {
		return y
	}
	if y.isTrue() {
		return x
	}
	if x == y {
		return x
	}
	if x.id > y.id {
		x, y = y, x
	}
	return b.mk(opAnd, 0, 0, "", x, y)
}

func (b *termBank) Or(x, y *Term) *Term {
	if x.isTrue() || y.isTrue() {
		return b.tt
	}
	if x.isFalse() {
		return y
	}
	if y.isFalse() {
		return x
	}
	if x == y {
		return x
	}
	if x.id > y.id {
		x, y = y, x
	}
	return b.mk(opOr, 0, 0, "", x, y)
}

func (b *termBank) Ite(c, x, y *Term) *Term {
	if c.isTrue() {
		return x
	}
	if c.isFalse() {
		return y
	}
	if x == y {
		return x
	}
	if x.w == 0 {
		if x.isTrue() && y.isFalse() {
			return c
		}
		if x.isFalse() && y.isTrue() {
			return b.Not(c)
		}
	}
	return b.mk(opIte, x.w, 0, "", c, x, y)
}

func (b *termBank) Eq(x, y *Term) *Term {
	if x.w != y.w {
		panic(fmt.Sprintf("Eq: width mismatch %d vs %d", x.w, y.w))
	}
	if x == y {
		return b.tt
	}
	if x.isConst() && y.isConst() {
		return b.Bool(x.val == y.val)
	}
	if x.w == 0 {
		if x.isConst() {
			x, y = y, x
		}
		if y.isTrue() {
			return x
		}
		if y.isFalse() {
			return b.Not(x)
		}
	}
	// eq(zext(a), const) -> eq(a, const') when const fits
	if y.isConst() && (x.op == opZext) {
		a := x.args[0]
		if y.val&^mask(a.w) != 0 {
			return b.ff
		}
		return b.Eq(a, b.BV(a.w, y.val))
	}
	if x.isConst() && (y.op == opZext) {
		return b.Eq(y, x)
	}
	if x.id > y.id {
		x, y = y, x
	}
	return b.mk(opEq, 0, 0, "", x, y)
}

func (b *termBank) Bin(op Op, x, y *Term) *Term {
	if x.w != y.w {
		panic(fmt.Sprintf("Bin %s: width mismatch %d vs %d", opSMT[op], x.w, y.w))
	}
	w := x.w
	rw := w
	switch op {
	case opUlt, opUle, opSlt, opSle:
		rw = 0
	}
	if x.isConst() && y.isConst() {
		if v, ok := evalBin(op, w, x.val, y.val); ok {
			if rw == 0 {
				return b.Bool(v != 0)
			}
			return b.BV(w, v)
		}
	}
	switch op {
	case opAdd, opBor, opBxor:
		if x.isConst() && x.val == 0 {
			return y
		}
		if y.isConst() && y.val == 0 {
			return x
		}
	case opSub, opShl, opLshr, opAshr:
		if y.isConst() && y.val == 0 {
			return x
		}
	case opBand:
		if x.isConst() && x.val == 0 || y.isConst() && y.val == 0 {
			return b.BV(w, 0)
		}
		if x.isConst() && x.val == mask(w) {
			return y
		}
		if y.isConst() && y.val == mask(w) {
			return x
		}
	case opMul:
		if x.isConst() && x.val == 1 {
			return y
		}
		if y.isConst() && y.val == 1 {
			return x
		}
		if x.isConst() && x.val == 0 || y.isConst() && y.val == 0 {
			return b.BV(w, 0)
		}
	case opUlt:
		if x == y {
			return b.ff
		}
		if y.isConst() && y.val == 0 {
			return b.ff
		}
	case opUle:
		if x == y {
			return b.tt
		}
		if x.isConst() && x.val == 0 {
			return b.tt
		}
	case opSlt:
		if x == y {
			return b.ff
		}
	case opSle:
		if x == y {
			return b.tt
		}
	}
	// range-based folding for zero-extended small values compared with constants
	if rw == 0 {
		if r, ok := b.foldCmp(op, x, y); ok {
			return r
		}
	}
	switch op {
	case opAdd, opMul, opBand, opBor, opBxor:
		if x.id > y.id {
			x, y = y, x
		}
	}
	return b.mk(op, rw, 0, "", x, y)
}

// urange returns a conservative unsigned range of t when cheaply known.
func urange(t *Term) (lo, hi uint64, ok bool) {
	switch t.op {
	case opConst:
		return t.val, t.val, true
	case opZext:
		return 0, mask(t.args[0].w), true
	}
	return 0, 0, false
}

func (b *termBank) foldCmp(op Op, x, y *Term) (*Term, bool) {
	xl, xh, ok1 := urange(x)
	yl, yh, ok2 := urange(y)
	if !ok1 || !ok2 {
		return nil, false
	}
	w := x.w
	// only when both ranges are non-negative in the signed view as well
	sm := uint64(1) << uint(w-1)
	if op == opSlt || op == opSle {
		if xh >= sm || yh >= sm {
			return nil, false
		}
	}
	switch op {
	case opUlt, opSlt:
		if xh < yl {
			return b.tt, true
		}
		if xl >= yh {
			return b.ff, true
		}
	case opUle, opSle:
		if xh <= yl {
			return b.tt, true
		}
		if xl > yh {
			return b.ff, true
		}
	}
	return nil, false
}

func evalBin(op Op, w int, x, y uint64) (uint64, bool) {
	m := mask(w)
	x &= m
	y &= m
	bo := func(c bool) uint64 {
		if c {
			return 1
		}
		return 0
	}
	switch op {
	case opAdd:
		return (x + y) & m, true
	case opSub:
		return (x - y) & m, true
	case opMul:
		return (x * y) & m, true
	case opUdiv:
		if y == 0 {
			return m, true
		}
		return (x / y) & m, true
	case opUrem:
		if y == 0 {
			return x, true
		}
		return (x % y) & m, true
	case opSdiv:
		sx, sy := sext64(x, w), sext64(y, w)
		if sy == 0 {
			if sx < 0 {
				return 1, true
			}
			return m, true
		}
		if sy == -1 {
			return uint64(-sx) & m, true
		}
		return uint64(sx/sy) & m, true
	case opSrem:
		sx, sy := sext64(x, w), sext64(y, w)
		if sy == 0 {
			return x, true
		}
		if sy == -1 {
			return 0, true
		}
		return uint64(sx%sy) & m, true
	case opBand:
		return x & y, true
	case opBor:
		return x | y, true
	case opBxor:
		return x ^ y, true
	case opShl:
		if y >= uint64(w) {
			return 0, true
		}
		return (x << y) & m, true
	case opLshr:
		if y >= uint64(w) {
			return 0, true
		}
		return (x >> y) & m, true
	case opAshr:
		sx := sext64(x, w)
		if y >= uint64(w) {
			if sx < 0 {
				return m, true
			}
			return 0, true
		}
		return uint64(sx>>y) & m, true
	case opUlt:
		return bo(x < y), true
	case opUle:
		return bo(x <= y), true
	case opSlt:
		return bo(sext64(x, w) < sext64(y, w)), true
	case opSle:
		return bo(sext64(x, w) <= sext64(y, w)), true
	}
	return 0, false
}

func (b *termBank) Bnot(x *Term) *Term {
	if x.isConst() {
		return b.BV(x.w, ^x.val)
	}
	return b.mk(opBnot, x.w, 0, "", x)
}

func (b *termBank) Neg(x *Term) *Term {
	if x.isConst() {
		return b.BV(x.w, -x.val)
	}
	return b.mk(opNeg, x.w, 0, "", x)
}

func (b *termBank) Zext(x *Term, w int) *Term {
	if w == x.w {
		return x
	}
	if w < x.w {
		return b.Extract(x, w-1, 0)
	}
	if x.isConst() {
		return b.BV(w, x.val)
	}
	if x.op == opZext {
		return b.Zext(x.args[0], w)
	}
	return b.mk(opZext, w, 0, "", x)
}

func (b *termBank) Sext(x *Term, w int) *Term {
	if w == x.w {
		return x
	}
	if w < x.w {
		return b.Extract(x, w-1, 0)
	}
	if x.isConst() {
		return b.BV(w, uint64(sext64(x.val, x.w)))
	}
	if x.op == opZext {
		// sign bit is zero
		return b.Zext(x.args[0], w)
	}
	return b.mk(opSext, w, 0, "", x)
}

func (b *termBank) Extract(x *Term, hi, lo int) *Term {
	w := hi - lo + 1
	if lo == 0 && w == x.w {
		return x
	}
	if x.isConst() {
		return b.BV(w, x.val>>uint(lo))
	}
	if (x.op == opZext || x.op == opSext) && lo == 0 {
		a := x.args[0]
		if w == a.w {
			return a
		}
		if w < a.w {
			return b.Extract(a, hi, 0)
		}
		if x.op == opZext {
			return b.Zext(a, w)
		}
		return b.Sext(a, w)
	}
	return b.mk(opExtract, w, uint64(hi)<<8|uint64(lo), "", x)
}

// Eval evaluates t under the model (missing variables are 0).
func (t *Term) Eval(model map[string]uint64, memo map[int]uint64) uint64 {
	if v, ok := memo[t.id]; ok {
		return v
	}
	var v uint64
	switch t.op {
	case opVar:
		v = model[t.name] & maskB(t.w)
	case opConst:
		v = t.val
	case opNot:
		v = 1 - t.args[0].Eval(model, memo)
	case opAnd:
		v = t.args[0].Eval(model, memo) & t.args[1].Eval(model, memo)
	case opOr:
		v = t.args[0].Eval(model, memo) | t.args[1].Eval(model, memo)
	case opIte:
		if t.args[0].Eval(model, memo) != 0 {
			v = t.args[1].Eval(model, memo)
		} else {
			v = t.args[2].Eval(model, memo)
		}
	case opEq:
		if t.args[0].Eval(model, memo) == t.args[1].Eval(model, memo) {
			v = 1
		}
	case opBnot:
		v = ^t.args[0].Eval(model, memo) & mask(t.w)
	case opNeg:
		v = -t.args[0].Eval(model, memo) & mask(t.w)
	case opZext:
		v = t.args[0].Eval(model, memo)
	case opSext:
		v = uint64(sext64(t.args[0].Eval(model, memo), t.args[0].w)) & mask(t.w)
	case opExtract:
		lo := int(t.val & 0xff)
		v = (t.args[0].Eval(model, memo) >> uint(lo)) & mask(t.w)
	case opConcat:
		v = (t.args[0].Eval(model, memo)<<uint(t.args[1].w) | t.args[1].Eval(model, memo)) & mask(t.w)
	default:
		x := t.args[0].Eval(model, memo)
		y := t.args[1].Eval(model, memo)
		r, ok := evalBin(t.op, t.args[0].w, x, y)
		if !ok {
			panic("Eval: unknown op")
		}
		v = r
	}
	memo[t.id] = v
	return v
}

func maskB(w int) uint64 {
	if w == 0 {
		return 1
	}
	return mask(w)
}

func sortOf(w int) string {
	if w == 0 {
		return "Bool"
	}
	return fmt.Sprintf("(_ BitVec %d)", w)
}

func constSMT(t *Term) string {
	if t.w == 0 {
		if t.val != 0 {
			return "true"
		}
		return "false"
	}
	if t.w%4 == 0 {
		return fmt.Sprintf("#x%0*x", t.w/4, t.val)
	}
	return fmt.Sprintf("(_ bv%d %d)", t.val, t.w)
}

// ref returns how t is referred to inside other expressions.
func (t *Term) ref() string {
	switch t.op {
	case opVar:
		return t.name
	case opConst:
		return constSMT(t)
	}
	return fmt.Sprintf("t%d", t.id)
}

// body returns the SMT expression of t in terms of refs of its children.
func (t *Term) body() string {
	switch t.op {
	case opVar, opConst:
		return t.ref()
	case opZext:
		return fmt.Sprintf("((_ zero_extend %d) %s)", t.w-t.args[0].w, t.args[0].ref())
	case opSext:
		return fmt.Sprintf("((_ sign_extend %d) %s)", t.w-t.args[0].w, t.args[0].ref())
	case opExtract:
		return fmt.Sprintf("((_ extract %d %d) %s)", t.val>>8, t.val&0xff, t.args[0].ref())
	}
	var sb strings.Builder
	sb.WriteByte('(')
	sb.WriteString(opSMT[t.op])
	for _, a := range t.args {
		sb.WriteByte(' ')
		sb.WriteString(a.ref())
	}
	sb.WriteByte(')')
	return sb.String()
}

// String gives a readable rendering (used in evidence samples).
func (t *Term) String() string {
	return t.render(0)
}

func (t *Term) render(depth int) string {
	if depth > 6 {
		return "…"
	}
	switch t.op {
	case opVar:
		return t.name
	case opConst:
		if t.w == 0 {
			if t.val != 0 {
				return "true"
			}
			return "false"
		}
		if t.w == 8 && t.val >= 32 && t.val < 127 {
			return fmt.Sprintf("%q", rune(t.val))
		}
		return fmt.Sprintf("%d", t.val)
	}
	var parts []string
	for _, a := range t.args {
		parts = append(parts, a.render(depth+1))
	}
	name := opSMT[t.op]
	switch t.op {
	case opZext:
		name = "zext"
	case opSext:
		name = "sext"
	case opExtract:
		name = fmt.Sprintf("extract[%d:%d]", t.val>>8, t.val&0xff)
	}
	return "(" + name + " " + strings.Join(parts, " ") + ")"
}

// allVars collects every variable below t (used when t.many).
func (t *Term) allVars(seen map[int]bool, out *[]*Term) {
	if seen[t.id] {
		return
	}
	seen[t.id] = true
	if t.op == opVar {
		*out = append(*out, t)
		return
	}
	if !t.many {
		for _, v := range t.vars {
			if !seen[v.id] {
				seen[v.id] = true
				*out = append(*out, v)
			}
		}
		return
	}
	for _, a := range t.args {
		a.allVars(seen, out)
	}
}

// evalWith evaluates t with variable v bound to x and every other variable
// taken from model; scratch is a reusable memo (cleared by the caller).
func (t *Term) evalWith(v *Term, x uint64, model map[string]uint64, scratch map[int]uint64) uint64 {
	if t == v {
		return x
	}
	if t.op == opConst {
		return t.val
	}
	if r, ok := scratch[t.id]; ok {
		return r
	}
	var r uint64
	switch t.op {
	case opVar:
		r = model[t.name] & maskB(t.w)
	case opNot:
		r = 1 - t.args[0].evalWith(v, x, model, scratch)
	case opAnd:
		r = t.args[0].evalWith(v, x, model, scratch) & t.args[1].evalWith(v, x, model, scratch)
	case opOr:
		r = t.args[0].evalWith(v, x, model, scratch) | t.args[1].evalWith(v, x, model, scratch)
	case opIte:
		if t.args[0].evalWith(v, x, model, scratch) != 0 {
			r = t.args[1].evalWith(v, x, model, scratch)
		} else {
			r = t.args[2].evalWith(v, x, model, scratch)
		}
	case opEq:
		if t.args[0].evalWith(v, x, model, scratch) == t.args[1].evalWith(v, x, model, scratch) {
			r = 1
		}
	case opBnot:
		r = ^t.args[0].evalWith(v, x, model, scratch) & mask(t.w)
	case opNeg:
		r = -t.args[0].evalWith(v, x, model, scratch) & mask(t.w)
	case opZext:
		r = t.args[0].evalWith(v, x, model, scratch)
	case opSext:
		r = uint64(sext64(t.args[0].evalWith(v, x, model, scratch), t.args[0].w)) & mask(t.w)
	case opExtract:
		lo := int(t.val & 0xff)
		r = (t.args[0].evalWith(v, x, model, scratch) >> uint(lo)) & mask(t.w)
	case opConcat:
		r = (t.args[0].evalWith(v, x, model, scratch)<<uint(t.args[1].w) | t.args[1].evalWith(v, x, model, scratch)) & mask(t.w)
	default:
		a := t.args[0].evalWith(v, x, model, scratch)
		b := t.args[1].evalWith(v, x, model, scratch)
		rr, ok := evalBin(t.op, t.args[0].w, a, b)
		if !ok {
			panic("evalWith: unknown op")
		}
		r = rr
	}
	scratch[t.id] = r
	return r
}
