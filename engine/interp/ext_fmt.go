package interp

// Summary of package fmt for the verbs go-snaps uses (%s %d %v %T %q %w and
// literal text), over possibly symbolic strings. Anything else is reported
// as inconclusive, never guessed.

import (
	"fmt"
	"go/types"
	"strconv"
	"strings"
)

func init() {
	for k, v := range map[string]externalFn{
		"fmt.Sprintf":  extSprintf,
		"fmt.Fprintf":  extFprintf,
		"fmt.Sprint":   extSprint,
		"fmt.Sprintln": extSprintln,
		"fmt.Println":  extPrintln,
		"fmt.Print":    extPrint,
		"fmt.Printf":   extPrintf,
		"fmt.Fprint":   extFprint,
		"fmt.Fprintln": extFprintln,
		"fmt.Errorf":   extErrorf,
		"fmt.Appendf":  extAppendf,
		"fmt.Append":   extAppend,
		"fmt.Appendln": extAppendln,
	} {
		externals[k] = v
	}
}

// typeString renders a type the way fmt's %T (reflect) does.
func typeString(t types.Type) string {
	s := types.TypeString(t, func(p *types.Package) string { return p.Name() })
	s = strings.ReplaceAll(s, "interface{}", "interface {}")
	s = strings.ReplaceAll(s, "any", "interface {}")
	return s
}

// fmtValue renders one operand for %v / %s / %d.
func (i *interpreter) fmtValue(fr *frame, verb byte, arg value) []value {
	itf, ok := arg.(iface)
	if !ok {
		i.abort("fmt: operand is not an interface value: %T", arg)
	}
	if itf.t == nil {
		if verb == 'v' {
			return strBytes("<nil>")
		}
		return strBytes("%!" + string(verb) + "(<nil>)")
	}
	if verb == 'T' {
		return strBytes(typeString(itf.t))
	}
	// error / Stringer take precedence for %v %s %q
	if verb == 'v' || verb == 's' || verb == 'q' {
		if m := findMethod(i, itf.t, "Error"); m != nil && m.Signature.Params().Len() == 0 && m.Signature.Results().Len() == 1 {
			if p, ok := itf.v.(*value); ok && p == nil {
				return strBytes("<nil>")
			}
			s := call(i, fr, fr.callpos, m, []value{itf.v})
			return i.fmtStr(verb, s)
		}
		if m := findMethod(i, itf.t, "String"); m != nil && m.Signature.Params().Len() == 0 && m.Signature.Results().Len() == 1 {
			if b, ok := m.Signature.Results().At(0).Type().Underlying().(*types.Basic); ok && b.Kind() == types.String {
				s := call(i, fr, fr.callpos, m, []value{itf.v})
				return i.fmtStr(verb, s)
			}
		}
	}
	switch v := itf.v.(type) {
	case string, symstr:
		if verb == 'd' {
			return append(strBytes("%!d(string="), append(strBytes(v), byte(')'))...)
		}
		return i.fmtStr(verb, v)
	case []value:
		if sl, ok := itf.t.Underlying().(*types.Slice); ok {
			if b, ok := sl.Elem().Underlying().(*types.Basic); ok && b.Kind() == types.Byte && (verb == 's' || verb == 'q') {
				return i.fmtStr(verb, mkstr(v))
			}
		}
	case bool:
		if verb == 'v' || verb == 't' {
			return strBytes(strconv.FormatBool(v))
		}
	case *Term:
		if v.w == 0 {
			if i.decide(v) {
				return strBytes("true")
			}
			return strBytes("false")
		}
		c := i.concretize(v)
		if isSigned(itf.t) {
			return i.fmtInt(verb, itf.t, sext64(c, v.w), 0, true)
		}
		return i.fmtInt(verb, itf.t, 0, c, false)
	case int, int8, int16, int32, int64:
		return i.fmtInt(verb, itf.t, asInt64(i, v), 0, true)
	case uint, uint8, uint16, uint32, uint64, uintptr:
		return i.fmtInt(verb, itf.t, 0, asUint64(i, v), false)
	case float64:
		if verb == 'v' {
			return strBytes(strconv.FormatFloat(v, 'g', -1, 64))
		}
	}
	i.abort("fmt: unsupported operand %s for verb %%%c", typeString(itf.t), verb)
	return nil
}

func (i *interpreter) fmtInt(verb byte, t types.Type, s int64, u uint64, signed bool) []value {
	switch verb {
	case 'd', 'v':
		if signed {
			return strBytes(strconv.FormatInt(s, 10))
		}
		return strBytes(strconv.FormatUint(u, 10))
	case 's':
		if signed {
			return strBytes(fmt.Sprintf("%%!s(%s=%d)", typeString(t), s))
		}
		return strBytes(fmt.Sprintf("%%!s(%s=%d)", typeString(t), u))
	case 'c':
		if signed {
			return strBytes(string(rune(s)))
		}
		return strBytes(string(rune(u)))
	}
	i.abort("fmt: unsupported integer verb %%%c", verb)
	return nil
}

func (i *interpreter) fmtStr(verb byte, s value) []value {
	if verb == 'q' {
		cs, ok := s.(string)
		if !ok {
			i.abort("fmt: %%q of a symbolic string")
		}
		return strBytes(strconv.Quote(cs))
	}
	return strBytes(s)
}

// badVerb renders fmt's %!verb(type=value) form.
func (i *interpreter) badVerb(fr *frame, verb byte, arg value) []value {
	itf := arg.(iface)
	out := strBytes("%!" + string(verb) + "(")
	if itf.t == nil {
		out = append(out, strBytes("<nil>")...)
	} else {
		out = append(out, strBytes(typeString(itf.t)+"=")...)
		out = append(out, i.fmtValue(fr, 'v', arg)...)
	}
	return append(out, byte(')'))
}

// sprintf formats; wrapped receives the operand of the first %w, if any.
// hostOperand converts an operand to a host value when it is a concrete value of an
// unnamed basic type (so that no method of the target program is involved).
func hostOperand(a value) (interface{}, bool) {
	itf, ok := a.(iface)
	if !ok || itf.t == nil {
		return nil, false
	}
	if _, basic := itf.t.(*types.Basic); !basic {
		return nil, false
	}
	switch v := itf.v.(type) {
	case string, bool, int, int8, int16, int32, int64, uint, uint8, uint16, uint32, uint64, uintptr, float32, float64:
		return v, true
	}
	return nil, false
}

func (i *interpreter) sprintf(fr *frame, format value, args []value, wrapped *value) []value {
	// concrete format and concrete basic operands: the host's fmt, which also
	// covers flags, width and precision
	if fs, ok := format.(string); ok && wrapped == nil {
		host := make([]interface{}, len(args))
		all := true
		for k, a := range args {
			if host[k], all = hostOperand(a); !all {
				break
			}
		}
		if all {
			return strBytes(fmt.Sprintf(fs, host...))
		}
	}
	f := strBytes(format)
	var out []value
	argN := 0
	conc := func(b value) byte {
		switch b := b.(type) {
		case byte:
			return b
		case *Term:
			return byte(i.concretize(b))
		}
		panic("conc")
	}
	for k := 0; k < len(f); k++ {
		isPct := false
		switch b := f[k].(type) {
		case byte:
			isPct = b == '%'
		case *Term:
			isPct = i.decide(i.tb.Eq(b, i.tb.BV(8, '%')))
		}
		if !isPct {
			out = append(out, f[k])
			continue
		}
		k++
		if k >= len(f) {
			out = append(out, strBytes("%!(NOVERB)")...)
			break
		}
		verb := conc(f[k])
		switch {
		case verb == '%':
			out = append(out, byte('%'))
		case verb == 's' || verb == 'd' || verb == 'v' || verb == 'T' || verb == 'q' || verb == 'w' || verb == 'c' || verb == 't':
			if argN >= len(args) {
				out = append(out, strBytes("%!"+string(verb)+"(MISSING)")...)
				continue
			}
			a := args[argN]
			argN++
			v := verb
			if verb == 'w' {
				if wrapped != nil && *wrapped == nil {
					*wrapped = a
				}
				v = 'v'
			}
			out = append(out, i.fmtValue(fr, v, a)...)
		case verb == '+' || verb == '-' || verb == '#' || verb == ' ' || verb == '0' || (verb >= '1' && verb <= '9') || verb == '.' || verb == '[' || verb == '*':
			i.abort("fmt: flags/width/precision/index in format are not modelled (%q)", string(verb))
		default:
			// unknown verb: consumes an operand and prints %!verb(type=value)
			if verb >= 0x80 {
				i.abort("fmt: non-ASCII verb")
			}
			if argN >= len(args) {
				out = append(out, strBytes("%!"+string(verb)+"(MISSING)")...)
				continue
			}
			a := args[argN]
			argN++
			isKnown := strings.ContainsRune("bceEfFgGoOpUxX", rune(verb))
			if isKnown {
				i.abort("fmt: verb %%%c is not modelled", verb)
			}
			out = append(out, i.badVerb(fr, verb, a)...)
		}
	}
	if argN < len(args) {
		out = append(out, strBytes("%!(EXTRA ")...)
		for k := argN; k < len(args); k++ {
			if k > argN {
				out = append(out, strBytes(", ")...)
			}
			itf := args[k].(iface)
			if itf.t == nil {
				out = append(out, strBytes("<nil>")...)
			} else {
				out = append(out, strBytes(typeString(itf.t)+"=")...)
				out = append(out, i.fmtValue(fr, 'v', args[k])...)
			}
		}
		out = append(out, byte(')'))
	}
	return out
}

// sprint implements Sprint/Sprintln operand spacing.
func (i *interpreter) sprint(fr *frame, args []value, ln bool) []value {
	var out []value
	prevString := false
	for k, a := range args {
		itf := a.(iface)
		isString := false
		if itf.t != nil {
			if b, ok := itf.t.Underlying().(*types.Basic); ok && b.Kind() == types.String {
				isString = true
			}
		}
		if k > 0 && (ln || (!isString && !prevString)) {
			out = append(out, byte(' '))
		}
		out = append(out, i.fmtValue(fr, 'v', a)...)
		prevString = isString
	}
	if ln {
		out = append(out, byte('\n'))
	}
	return out
}

func variadic(v value) []value {
	if v == nil {
		return nil
	}
	return v.([]value)
}

func extSprintf(fr *frame, args []value) value {
	return mkstr(fr.i.sprintf(fr, args[0], variadic(args[1]), nil))
}

func (i *interpreter) writeTo(fr *frame, w value, data []value) value {
	itf := w.(iface)
	if itf.t == nil {
		panic(targetPanic{"runtime error: invalid memory address or nil pointer dereference (nil io.Writer)"})
	}
	m := findMethod(i, itf.t, "Write")
	if m == nil {
		i.abort("fmt: writer %s has no Write method", itf.t)
	}
	buf := make([]value, len(data))
	copy(buf, data)
	return call(i, fr, fr.callpos, m, []value{itf.v, buf})
}

func extFprintf(fr *frame, args []value) value {
	data := fr.i.sprintf(fr, args[1], variadic(args[2]), nil)
	return fr.i.writeTo(fr, args[0], data)
}

func extFprint(fr *frame, args []value) value {
	return fr.i.writeTo(fr, args[0], fr.i.sprint(fr, variadic(args[1]), false))
}

func extFprintln(fr *frame, args []value) value {
	return fr.i.writeTo(fr, args[0], fr.i.sprint(fr, variadic(args[1]), true))
}

func extSprint(fr *frame, args []value) value {
	return mkstr(fr.i.sprint(fr, variadic(args[0]), false))
}

func extSprintln(fr *frame, args []value) value {
	return mkstr(fr.i.sprint(fr, variadic(args[0]), true))
}

func (i *interpreter) stdout(data []value) value {
	i.path.stdout = append(i.path.stdout, data...)
	return tuple{len(data), nilErr()}
}

func extPrintln(fr *frame, args []value) value {
	return fr.i.stdout(fr.i.sprint(fr, variadic(args[0]), true))
}

func extPrint(fr *frame, args []value) value {
	return fr.i.stdout(fr.i.sprint(fr, variadic(args[0]), false))
}

func extPrintf(fr *frame, args []value) value {
	return fr.i.stdout(fr.i.sprintf(fr, args[0], variadic(args[1]), nil))
}

func extErrorf(fr *frame, args []value) value {
	i := fr.i
	var wrapped value
	msg := mkstr(i.sprintf(fr, args[0], variadic(args[1]), &wrapped))
	T := i.namedType(vxPkg, "WrapErr")
	p := newStruct(T)
	setField(p, T, "Msg", msg)
	if wrapped != nil {
		setField(p, T, "Err", wrapped)
	}
	return iface{t: types.NewPointer(T), v: p}
}

func appendTo(dst value, data []value) value {
	d, _ := dst.([]value)
	out := make([]value, 0, len(d)+len(data))
	out = append(out, d...)
	return append(out, data...)
}

func extAppendf(fr *frame, args []value) value {
	return appendTo(args[0], fr.i.sprintf(fr, args[1], variadic(args[2]), nil))
}

func extAppend(fr *frame, args []value) value {
	return appendTo(args[0], fr.i.sprint(fr, variadic(args[1]), false))
}

func extAppendln(fr *frame, args []value) value {
	return appendTo(args[0], fr.i.sprint(fr, variadic(args[1]), true))
}
