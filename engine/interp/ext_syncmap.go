package interp

// Model of sync.Map: an insertion-ordered map from interface keys to interface
// values; every operation is atomic and a scheduling point.

import (
	"fmt"
	"go/types"
)

func init() {
	for k, v := range map[string]externalFn{
		"(*sync.Map).Load":          extSyncMapLoad,
		"(*sync.Map).Store":         extSyncMapStore,
		"(*sync.Map).LoadOrStore":   extSyncMapLoadOrStore,
		"(*sync.Map).LoadAndDelete": extSyncMapLoadAndDelete,
		"(*sync.Map).Delete":        extSyncMapDelete,
		"(*sync.Map).Swap":          extSyncMapSwap,
		"(*sync.Map).Range":         extSyncMapRange,
		"(*sync.Map).Clear":         extSyncMapClear,
	} {
		externals[k] = v
	}
}

func (i *interpreter) syncMapOf(p *value) *omap {
	if p == nil {
		panic(targetPanic{"runtime error: invalid memory address or nil pointer dereference (nil *sync.Map)"})
	}
	key := fmt.Sprintf("syncmap:%p", p)
	m, _ := i.path.extra[key].(*omap)
	if m == nil {
		m = &omap{keyType: types.NewInterfaceType(nil, nil), idx: map[value]int{}}
		i.path.extra[key] = m
	}
	i.yield()
	return m
}

func extSyncMapLoad(fr *frame, args []value) value {
	m := fr.i.syncMapOf(args[0].(*value))
	if v, ok := m.lookup(fr.i, args[1]); ok {
		return tuple{v, true}
	}
	return tuple{iface{}, false}
}

func extSyncMapStore(fr *frame, args []value) value {
	m := fr.i.syncMapOf(args[0].(*value))
	m.insert(fr.i, args[1], args[2])
	return nil
}

func extSyncMapLoadOrStore(fr *frame, args []value) value {
	m := fr.i.syncMapOf(args[0].(*value))
	if v, ok := m.lookup(fr.i, args[1]); ok {
		return tuple{v, true}
	}
	m.insert(fr.i, args[1], args[2])
	return tuple{args[2], false}
}

func extSyncMapLoadAndDelete(fr *frame, args []value) value {
	m := fr.i.syncMapOf(args[0].(*value))
	if v, ok := m.lookup(fr.i, args[1]); ok {
		m.delete(fr.i, args[1])
		return tuple{v, true}
	}
	return tuple{iface{}, false}
}

func extSyncMapDelete(fr *frame, args []value) value {
	m := fr.i.syncMapOf(args[0].(*value))
	m.delete(fr.i, args[1])
	return nil
}

func extSyncMapSwap(fr *frame, args []value) value {
	m := fr.i.syncMapOf(args[0].(*value))
	old, ok := m.lookup(fr.i, args[1])
	m.insert(fr.i, args[1], args[2])
	if !ok {
		return tuple{iface{}, false}
	}
	return tuple{old, true}
}

func extSyncMapClear(fr *frame, args []value) value {
	fr.i.syncMapOf(args[0].(*value)).clear()
	return nil
}

// Range visits a snapshot of the entries in insertion order (sync.Map promises
// no particular order; a property that depends on it is outside the model).
func extSyncMapRange(fr *frame, args []value) value {
	i := fr.i
	m := i.syncMapOf(args[0].(*value))
	keys := append([]value(nil), m.keys...)
	vals := append([]value(nil), m.vals...)
	dead := append([]bool(nil), m.dead...)
	for k := range keys {
		if dead[k] {
			continue
		}
		r := call(i, fr, fr.callpos, args[2-1], []value{keys[k], vals[k]})
		if !i.truth(r) {
			break
		}
	}
	return nil
}
