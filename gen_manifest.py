#!/usr/bin/env python3
"""Regenerates MANIFEST.json from props.py (checks) and na.py (not applicable)."""
import json, os, sys
ROOT = os.path.dirname(os.path.abspath(__file__))
sys.path.insert(0, ROOT)
from props import PROPS
try:
    from na import NOT_APPLICABLE
except ImportError:
    NOT_APPLICABLE = {}

ALL = ["C%02d" % i for i in range(1, 21)]  # "selftest" in props.py is internal, not a property
checks = []
for pid in ALL:
    if pid not in PROPS:
        continue
    cfg = PROPS[pid]
    checks.append({
        "property_id": pid,
        "quick_cmd": f"./check {pid} quick",
        "thorough_cmd": f"./check {pid} thorough",
        "evidence_file": f"evidence/{pid}.json",
        "replay_cmd_template": f"./check {pid} --replay {{path}}",
        "engine": "gosym",
        "technique": "bounded symbolic execution of the repository's go/ssa with z3 deciding every branch and assertion; counterexamples replayed natively",
        "level_claimed": {
            "category": "model_checking",
            "text": cfg.get("level_text") or (
                "Bounded symbolic model checking of the real code: the harness drives the go-snaps functions (executed from the SSA of /repo's working tree) "
                "with symbolic bytes, flags and environment; on every feasible path class z3 shows PC AND NOT assertion unsatisfiable, so the property holds for "
                "ALL values of the symbolic inputs within the stated bounds (" + cfg.get("bounds", {}).get("quick", "") + "), and for nothing outside them. "
                "A sat answer is replayed against the natively compiled package before it is reported."),
            "design_ref": "DESIGN.md section 6, " + pid,
        },
        "level_note": "Trusted: go/packages+go/ssa front end, the engine's instruction semantics (validated per run by replaying sampled paths natively), "
                      "class-B/C intrinsics and stubs listed in the evidence, z3. Assumptions: " + "; ".join(cfg.get("assumptions", [])[3:] or ["none beyond the common ones"])
                      + ". Outside the claim: " + ("; ".join(cfg.get("outside", [])) or "sizes beyond the bounds") + ".",
    })
na = [{"property_id": p, "reason": r} for p, r in sorted(NOT_APPLICABLE.items()) if p not in PROPS]
for pid in ALL:
    if pid not in PROPS and pid not in NOT_APPLICABLE:
        na.append({"property_id": pid, "reason": "check not built yet (work in progress)"})
m = {
    "version": 1,
    "setup_cmd": "./setup.sh",
    "hooks": {
        "guard": "verif",
        "enable": "harness files are injected as overlays (go/packages Overlay for the symbolic build, go test -overlay for native replays) under build tags verif / verif_replay; nothing is committed in /repo",
        "baseline_off_cmd": "cd /repo && go test -vet=off -count=1 -timeout 25m ./...",
        "source_commits": [],
        "add_only": True,
    },
    "engines": [{"name": "gosym", "path": "engine", "serves_properties": [c["property_id"] for c in checks],
                 "kind_free_text": "bounded symbolic executor for Go SSA (fork of golang.org/x/tools/go/ssa/interp v0.29.0) with symbolic bytes/ints/bools, "
                                   "z3 -in per worker, exploration by re-execution with decision prefixes, native replay twin"}],
    "checks": checks,
    "notes": "See DESIGN.md. Fixes of genuine defects are the 'fix:' commits in /repo; recorded findings are in known_findings.json.",
    "not_applicable": na,
}
json.dump(m, open(os.path.join(ROOT, "MANIFEST.json"), "w"), indent=1)
print("checks:", [c["property_id"] for c in checks], "n/a:", [x["property_id"] for x in na])
