# Property table: which harness runs decide which property, with the bounds
# per tier. Read by ./check.

COMMON_ASSUME = [
    "class-C stubs answer within their written contracts (DESIGN.md section 5): in-memory file system with atomic operations, "
    "environment variables, runtime.Caller over the interpreter stack, kr/pretty.Sprint = identity on strings without tabwriter control bytes",
    "go/packages + go/ssa produce the SSA the compiler would see; instruction semantics inherited from x/tools go/ssa/interp",
    "z3 4.8.12 is sound on the QF_BV queries issued",
]

PROPS = {
    "C01": {
        "runs": [
            {"harness": "H_C01_snapshot", "quick": {"n": 5}, "thorough": {"n": 7}},
        ],
        "bounds": {"quick": "formatted text <= 5 bytes", "thorough": "formatted text <= 7 bytes"},
        "assumptions": COMMON_ASSUME + ["no line of the text ends in a carriage return (documented limitation)"],
        "outside": ["structured Go values (only their formatted text is quantified)"],
    },
    "C02": {
        "runs": [
            {"harness": "H_C02_snapshot", "params": {"ascii": 1}, "quick": {"n": 3}, "thorough": {"n": 5}},
            {"harness": "H_C02_snapshot", "params": {"ascii": 0}, "quick": {"n": 2}, "thorough": {"n": 2}},
            {"harness": "H_C02_snapshot", "params": {"ascii": 1, "n0lo": 7, "n0hi": 7, "n1lo": 3, "n1hi": 3}},
            {"harness": "H_C02_snapshot", "params": {"ascii": 1, "n0lo": 3, "n0hi": 3, "n1lo": 7, "n1hi": 7}},
        ],
        "bounds": {"quick": "MatchSnapshot; ASCII texts <= 3 bytes each; arbitrary bytes <= 2 each; 7-byte vs 3-byte ASCII texts (escape token vs terminator)",
                   "thorough": "ASCII texts <= 5 bytes each; arbitrary bytes <= 2 each; 7 vs 3"},
        "assumptions": COMMON_ASSUME + ["no line of either text ends in a carriage return (documented limitation)"],
        "outside": [],
    },
    "C13": {
        "runs": [
            {"harness": "H_C13_opcodes", "pkg": "difflib", "quick": {"p": 4, "q": 4}, "thorough": {"p": 5, "q": 5}},
            {"harness": "H_C13_opcodes_long", "pkg": "difflib", "params": {"lines": 12}, "quick": {"sym": 1}, "thorough": {"sym": 2}},
            {"harness": "H_C13_opcodes_long", "pkg": "difflib", "params": {"lines": 210}, "quick": {"sym": 1}, "thorough": {"sym": 1}},
            {"harness": "H_C13_empty", "params": {"ascii": 1}, "quick": {"n": 3}, "thorough": {"n": 4}},
            {"harness": "H_C13_empty", "params": {"ascii": 0}, "quick": {"n": 2}, "thorough": {"n": 2}},
            {"harness": "H_C13_render", "quick": {"lines": 3}, "thorough": {"lines": 4}},
        ],
        "bounds": {"quick": "op-codes: all pairs of line sequences up to 4+4 lines (every equality pattern), 12- and 210-line sequences with one free line each; "
                            "emptiness: ASCII texts <= 3 bytes, arbitrary bytes <= 2; rendering: <= 3 lines of one letter each, with/without final newline",
                   "thorough": "op-codes up to 5+5 lines, 12 lines with 2 free lines each; emptiness ASCII <= 4; rendering <= 4 lines"},
        "assumptions": COMMON_ASSUME + ["diffmatchpatch is summarised by: rune sequences equal <=> single Equal chunk (DESIGN 5.5)"],
        "outside": ["appearance of inline highlights (colour mode)", "line contents longer than one byte in the op-code harness (only equality of lines is observed by the code)"],
    },
}
