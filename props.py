# Property table: which harness runs decide which property, with the bounds
# per tier. Read by ./check.

COMMON_ASSUME = [
    "class-C stubs answer within their written contracts (DESIGN.md section 5): in-memory file system with atomic operations, "
    "environment variables, runtime.Caller over the interpreter stack, kr/pretty.Sprint = identity on strings without tabwriter control bytes",
    "go/packages + go/ssa produce the SSA the compiler would see; instruction semantics inherited from x/tools go/ssa/interp",
    "z3 4.8.12 is sound on the QF_BV queries issued",
]

PROPS = {
    "C01": {
        "runs": [
            {"harness": "H_C01_snapshot", "quick": {"n": 5}, "thorough": {"n": 7}},
            {"harness": "H_C01_struct", "quick": {"lines": 3}, "thorough": {"lines": 4}},
            {"harness": "H_C01_json", "quick": {"n": 2}, "thorough": {"n": 3}},
            {"harness": "H_C01_many", "quick": {"n": 2}, "thorough": {"n": 3}},
            {"harness": "H_C01_longline", "quick": {"len": 70000}, "thorough": {"len": 70000}},
            {"harness": "H_C01_longline", "params": {"len": 1100000}},
            {"harness": "H_C01_twofiles", "quick": {"calls": 3}, "thorough": {"calls": 4}},
            {"harness": "H_C01_bigfile", "quick": {"entries": 40}, "thorough": {"entries": 80}},
            {"harness": "H_C01_order"},
            {"harness": "H_C01_shadow", "quick": {"n": 2}, "thorough": {"n": 3}},
            {"harness": "H_C01_mixed", "thorough_only": True, "thorough": {"n": 1, "m": 1}, "timeout_s": 900},
        ],
        "bounds": {"quick": "MatchSnapshot text: every byte string <= 5 bytes; 1..3 lines each of 8 shapes around the tokens --- and /-/-/-/ with symbolic filler, via MatchSnapshot and MatchYAML next to a pre-existing entry; "
                            "JSON templates with string leaves <= 2 bytes; 11 calls in one test (ordinals 1 and 10 symbolic); one 70 000-byte and one 1 100 000-byte line; a 330 KB file of 40 four-line entries recorded and replayed; one test recording 2..3 calls into two files through the three keyed entry points, three executions; a body line shaped like another test's header",
                   "thorough": "every byte string <= 7 bytes; 1..4 structured lines; mixes of the three kinds over two tests"},
        "assumptions": COMMON_ASSUME + ["no line of the text ends in a carriage return (documented limitation)"],
        "outside": ["structured Go values (only their formatted text is quantified)",
                    "a stored body with a whole line equal to the header of a slot addressed in the same file (known finding K2)"],
    },
    "C02": {
        "runs": [
            {"harness": "H_C02_snapshot", "params": {"ascii": 1}, "quick": {"n": 3}, "thorough": {"n": 5}},
            {"harness": "H_C02_snapshot", "params": {"ascii": 0}, "quick": {"n": 2}, "thorough": {"n": 2}},
            {"harness": "H_C02_snapshot", "params": {"ascii": 1, "n0lo": 7, "n0hi": 7, "n1lo": 3, "n1hi": 3}},
            {"harness": "H_C02_snapshot", "params": {"ascii": 1, "n0lo": 3, "n0hi": 3, "n1lo": 7, "n1hi": 7}},
            {"harness": "H_C02_snapshot", "params": {"ascii": 0, "n0lo": 3, "n0hi": 3, "n1lo": 1, "n1hi": 1}},
            {"harness": "H_C02_snapshot", "params": {"ascii": 0, "n0lo": 1, "n0hi": 1, "n1lo": 3, "n1hi": 3}},
            {"harness": "H_C02_struct", "quick": {"lines": 2}, "thorough": {"lines": 2}},
            {"harness": "H_C02_standalone", "quick": {"n": 3}, "thorough": {"n": 4}},
            {"harness": "H_C02_json"},
            {"harness": "H_C02_ansi"},
        ],
        "bounds": {"quick": "MatchSnapshot; ASCII texts <= 3 bytes each; arbitrary bytes <= 2 each; arbitrary 3 bytes vs 1 byte; 7-byte vs 3-byte ASCII texts (escape token vs terminator); stored JSON entries differing from the received document's stored form in value or only in layout (MatchJSON, MatchStandaloneJSON); texts differing only inside terminal escape sequences",
                   "thorough": "ASCII texts <= 5 bytes each; arbitrary bytes <= 2 each; 7 vs 3"},
        "assumptions": COMMON_ASSUME + ["no line of either text ends in a carriage return (documented limitation)"],
        "outside": [],
    },
    "C13": {
        "runs": [
            {"harness": "H_C13_opcodes", "pkg": "difflib", "quick": {"p": 4, "q": 4}, "thorough": {"p": 5, "q": 5}},
            {"harness": "H_C13_opcodes", "pkg": "difflib", "params": {"alphabet": 3}, "quick": {"p": 5, "q": 5}, "thorough": {"p": 6, "q": 6, "pmin": 5, "qmin": 5}},
            {"harness": "H_C13_opcodes", "pkg": "difflib", "params": {"alphabet": 4, "p": 6, "q": 5, "pmin": 6, "qmin": 5}, "thorough_only": True},
            {"harness": "H_C13_opcodes_long", "pkg": "difflib", "params": {"lines": 12}, "quick": {"sym": 1}, "thorough": {"sym": 2}},
            {"harness": "H_C13_opcodes_long", "pkg": "difflib", "params": {"lines": 210}, "quick": {"sym": 1}, "thorough": {"sym": 1}},
            {"harness": "H_C13_popular", "pkg": "difflib"},
            {"harness": "H_C13_empty", "params": {"ascii": 1}, "quick": {"n": 3}, "thorough": {"n": 4}},
            {"harness": "H_C13_empty", "params": {"ascii": 0}, "quick": {"n": 2}, "thorough": {"n": 2}},
            {"harness": "H_C13_empty", "params": {"ascii": 0, "nalo": 3, "nahi": 3, "nblo": 1, "nbhi": 1}},
            {"harness": "H_C13_empty", "params": {"ascii": 0, "nalo": 1, "nahi": 1, "nblo": 3, "nbhi": 3}},
            {"harness": "H_C13_render", "quick": {"lines": 3}, "thorough": {"lines": 4}},
            {"harness": "H_C13_render_long"},
            {"harness": "H_C13_collisions"},
        ],
        "bounds": {"quick": "op-codes: all pairs of line sequences up to 4+4 lines (every equality pattern) and all pairs over a 3-letter alphabet up to 5+5 lines, 12- and 210-line sequences with one free line each; "
                            "emptiness: ASCII texts <= 3 bytes, arbitrary bytes <= 2, arbitrary 3 bytes vs 1 byte (a three-byte rune against an invalid byte); rendering: <= 3 lines of one letter each, with/without final newline; 24-line texts differing in two places far apart (two hunks); eight known collision pairs of common 32-bit string hashes",
                   "thorough": "op-codes up to 5+5 lines (any alphabet), 3-letter alphabet up to 6+6, 4-letter alphabet 6+5, 12 lines with 2 free lines each; emptiness ASCII <= 4; rendering <= 4 lines"},
        "assumptions": COMMON_ASSUME + ["diffmatchpatch is summarised by: rune sequences equal <=> single Equal chunk (DESIGN 5.5)"],
        "outside": ["appearance of inline highlights (colour mode)", "line contents longer than one byte in the op-code harness (only equality of lines is observed by the code)"],
    },
    "C03": {
        "runs": [
            {"harness": "H_C03_addressing", "quick": {"pre": 2, "steps": 3}, "thorough": {"pre": 11, "steps": 3}},
            {"harness": "H_C03_isolation", "reach": ["add", "update"], "quick": {"frames": 2, "n": 3}, "thorough": {"frames": 3, "n": 3}},
            {"harness": "H_C03_lookalike"},
            {"harness": "H_C04_layouts"},
            {"harness": "H_C01_order"},
            {"harness": "H_C03_mention"},
            {"harness": "H_C01_longline", "params": {"len": 1100000}},
            {"harness": "H_C01_twofiles", "quick": {"calls": 3}, "thorough": {"calls": 4}},
        ],
        "bounds": {"quick": "addressing: 2 distinct tests from a pool of 4 names with prefix relations, 0 or 2 earlier calls each, then 1..3 steps, each a passing / mismatching / invalid-JSON / matcher-error call of either test or the end of an execution of either test; "
                            "isolation: files of 0..2 frames with bodies <= 3 arbitrary bytes, one add or update with a body <= 3 bytes; an earlier entry with a line that contains or ends with another slot's header; four spellings of one directory; one test recording into two files; five file layouts (no final newline, no blank line between entries, extra blank lines) with an update of the first, middle or last entry; a 1.1 MB line",
                   "thorough": "0..11 earlier calls (ordinals above 9); files of 0..3 frames"},
        "assumptions": COMMON_ASSUME + ["pre-existing files are well formed: bodies have no whole line `---` and no CR at end of line"],
        "outside": ["interleavings of concurrently running tests (see C06)", "ids that occur as a whole body line of another entry (known finding K2, see C01)"],
    },
    "C04": {
        "runs": [
            {"harness": "H_C04_update", "reach": ["changed", "unchanged"], "quick": {"frames": 2, "n": 2}, "thorough": {"frames": 2, "n": 3}},
            {"harness": "H_C04_update", "params": {"struct": 1, "frames": 1}, "quick": {"lines": 2}, "thorough": {"lines": 3}},
            {"harness": "H_C04_update", "params": {"struct": 1, "frames": 2, "minframes": 2}, "quick": {"lines": 1}, "thorough": {"lines": 1}},
            {"harness": "H_C04_update", "params": {"big": 5000, "frames": 2, "minframes": 2, "n": 1}},
            {"harness": "H_C04_standalone", "quick": {"n": 3}, "thorough": {"n": 4}},
            {"harness": "H_C04_layouts"},
            {"harness": "H_C14_update"},
        ],
        "bounds": {"quick": "1..2 entries, each changed or not, old/new ASCII texts <= 2 bytes; standalone: texts <= 3 bytes; five file layouts x update of the first, middle or last of three entries; JSON documents with $, % and backslashes updated (keyed and standalone)",
                   "thorough": "texts <= 3 bytes; standalone <= 4"},
        "assumptions": COMMON_ASSUME + ["no CR at end of line"],
        "outside": ["MatchJSON/MatchYAML entries in update mode (same storage path as MatchSnapshot)"],
    },
    "C05": {
        "runs": [
            {"harness": "H_C05_match", "reach": ["missing", "equal", "different"], "quick": {"envlen": 5}, "thorough": {"envlen": 6}},
            {"harness": "H_clean", "params": {"prop": 5}, "reach": ["ci"], "quick": {"count": 1, "n": 0}, "thorough": {"count": 2, "n": 1}},
            {"harness": "H_C05_readonly"},
            {"harness": "H_C05_run"},
            {"harness": "H_C02_json"},
            {"harness": "H_C09_empty"},
        ],
        "bounds": {"quick": "CI x Update option x UPDATE_SNAPS (any string of <= 5 bytes) x 5 entry points x entry state; LF or CRLF line endings in the file x CI x Update(false) x match/mismatch x 3 keyed entry points; Clean under a -run filter x CI x UPDATE_SNAPS (<= 5 bytes) with an obsolete file nothing exempts",
                   "thorough": "UPDATE_SNAPS any string of <= 6 bytes"},
        "assumptions": COMMON_ASSUME + ["ciinfo.IsCI is an arbitrary Boolean fixed at start-up"],
        "outside": [],
    },
    "C12": {
        "runs": [
            {"harness": "H_C12_immutable", "quick": {"calls": 2}, "thorough": {"calls": 3}},
            {"harness": "H_C12_concurrent", "stress": 2000, "quick": {"preempt": 1}, "thorough": {"preempt": 2}},
            {"harness": "H_C12_independent", "stress": 20000, "quick": {"preempt": 2}, "thorough": {"preempt": 3}},
            {"harness": "H_C11_location", "params": {"percent": 0}, "quick": {"n": 0}, "thorough": {"n": 1}},
            {"harness": "H_C12_mismatch"},
            {"harness": "H_C19_mixed", "quick": {"calls": 2}, "thorough": {"calls": 3}},
        ],
        "bounds": {"quick": "a first call that passes or mismatches followed by a replaying call, any pair of entry points, Filename unset / plain / with a directory part; every subset of {Filename, Ext, Update, JSON} options; sequences of 1..2 of the five entry points through one shared Config; two goroutines issuing any pair of entry points through one shared Config, all schedules with <= 1 preemption; two Configs with different JSON options used by two goroutines at once (MatchJSON or MatchStandaloneJSON), stores to the library's package-level variables being scheduling points, <= 2 preemptions",
                   "thorough": "sequences of 1..3 entry points"},
        "assumptions": COMMON_ASSUME,
        "outside": ["interleavings between plain memory accesses to heap objects (the scheduler interleaves at file-system and lock operations, and in H_C12_independent at stores to package-level variables; writes to the Config are caught by the write monitor in any schedule)"],
    },
    "C17": {
        "runs": [
            {"harness": "H_C17_matcher_errors", "quick": {"matchers": 2}, "thorough": {"matchers": 3}},
            {"harness": "H_C17_real", "reach": ["error", "ok"]},
            {"harness": "H_C15_reuse"},
        ],
        "bounds": {"quick": "1..2 matchers, each an arbitrary implementation of the matcher interface returning 0..2 errors and rewriting or not; "
                            "MatchJSON, MatchYAML, MatchStandaloneJSON; CI x Update option x UPDATE_SNAPS (<= 4 bytes) x entry missing/present; "
                            "the real Any / Type[string] / Custom JSON matchers on {s:string,v:string|number|null|bool} with an existing or missing path, ErrOnMissingPath on/off, failing callback",
                   "thorough": "1..3 matchers"},
        "assumptions": COMMON_ASSUME + ["matchers are quantified at the JSONMatcher/YAMLMatcher interface (arbitrary outputs and error lists)"],
        "outside": ["the real YAML matchers (goccy path engine)", "gjson path syntax beyond plain member names"],
    },
    "C18": {
        "runs": [
            {"harness": "H_C18_yaml", "reach": ["valid", "invalid"], "quick": {"n": 4}, "thorough": {"n": 6}, "args": ["-sample-every", "11"], "validate": {"quick": 5, "thorough": 10}},
            {"harness": "H_C04_update", "params": {"struct": 1, "frames": 1}, "quick": {"lines": 2}, "thorough": {"lines": 3}},
            {"harness": "H_C10_bodies", "quick": {"lines": 2}, "thorough": {"lines": 3}},
            {"harness": "H_C01_longline", "params": {"len": 1100000}},
            {"harness": "H_C03_mention"},
        ],
        "bounds": {"quick": "documents: arbitrary bytes <= 4, and five part-concrete shapes (multi-document stream, block scalar with a --- line, comment, "
                            "header-like flow sequence, trailing blank lines) with symbolic leaves; string and []byte input; final newline present/absent",
                   "thorough": "arbitrary bytes <= 6"},
        "assumptions": COMMON_ASSUME + ["goccy/go-yaml is an oracle: whether a document is valid is an arbitrary Boolean (both answers explored); "
                                        "natively replayed counterexamples must agree with the real library",
                                        "no CR at end of line (documented limitation)"],
        "outside": ["Go values (reflection-based goccy encoder): marshal determinism is not decided", "YAML matchers"],
    },
    "C19": {
        "runs": [
            {"harness": "H_C19_standalone", "quick": {"n": 3, "calls": 2}, "thorough": {"n": 5, "calls": 3}},
            {"harness": "H_C19_json", "quick": {"n": 2}, "thorough": {"n": 3}},
            {"harness": "H_C19_mixed", "quick": {"calls": 2}, "thorough": {"calls": 4}},
            {"harness": "H_C02_standalone", "quick": {"n": 3}, "thorough": {"n": 4}},
            {"harness": "H_C14_invalid", "reach": ["valid", "invalid"], "quick": {"n": 2}, "thorough": {"n": 3}},
        ],
        "bounds": {"quick": "1..2 standalone calls with arbitrary byte values <= 3 (CR allowed), two executions; JSON templates with string leaves <= 2 bytes; 2 calls of one test mixing the two standalone entry points and three Configs (default, Ext, Filename)",
                   "thorough": "values <= 5 bytes, 1..3 calls; 2..4 mixed calls"},
        "assumptions": COMMON_ASSUME,
        "outside": ["test names containing % (the standalone path is used as a format string; see C11)"],
    },
    "C20": {
        "runs": [
            {"harness": "H_C20_outcome", "reach": ["failed", "added", "updated", "passed"], "quick": {"faults": 1}, "thorough": {"faults": 1}},
            {"harness": "H_C20_summary"},
            {"harness": "H_C20_clean_summary", "quick": {"count": 2}, "thorough": {"count": 3}},
            {"harness": "H_C20_skips", "quick": {"skips": 3}, "thorough": {"skips": 4}},
            {"harness": "H_C20_concurrent", "stress": 20000},
            {"harness": "H_C17_matcher_errors", "quick": {"matchers": 1}, "thorough": {"matchers": 2}},
        ],
        "bounds": {"quick": "one call: CI x Update option x UPDATE_SNAPS (<= 4 bytes) x 5 entry points x entry state, every file-system operation may fail; "
                            "a test name longer than NAME_MAX (real write failure); summary: counters in {0,1,2,11}, 0..2 obsolete files and tests, both modes; 1..3 Skip*/Skipf/SkipNow calls on TestP, TestP/child, TestQ followed by Clean; a program of passing/failing/recording calls run -count 1..2 times followed by Clean (printed counts = calls of the process)",
                   "thorough": "1..4 skip calls; -count 1..3"},
        "assumptions": COMMON_ASSUME + ["MatchSnapshot is called with at least one value"],
        "outside": ["more than two goroutines; the data-race clause beyond lost updates of the counters and the skip list"],
    },
    "C07": {
        "runs": [
            {"harness": "H_clean", "params": {"prop": 7}, "quick": {"count": 2, "n": 0}, "thorough": {"count": 2, "n": 1, "allsubsets": 1}, "timeout_s": {"thorough": 1800}},
            {"harness": "H_C10_bodies", "quick": {"lines": 2}, "thorough": {"lines": 3}},
            {"harness": "H_C10_bodies", "params": {"big": 5000}},
            {"harness": "H_C10_names"},
            {"harness": "H_C07_symlink"},
            {"harness": "H_C09_odd"},
            {"harness": "H_C01_twofiles", "quick": {"calls": 3}, "thorough": {"calls": 4}},
        ],
        "bounds": {"quick": "program: TestA (2 calls), TestB (1 call), TestS (1 standalone call), -count 1..2; directory with optional stale ordinal, stale test, "
                            "stale standalone file, stale multi-entry file, 3 layouts; CI x UPDATE_SNAPS (<= 5 bytes) x sort; one live body symbolic (<= 1 byte); a 5000-byte live body; nine unusual test names; the snapshot directory reached through a symbolic link",
                   "thorough": "every subset of the optional features, one symbolic body"},
        "assumptions": COMMON_ASSUME + ["flag test.run is empty (no -run filter; filtered runs are C08)"],
        "outside": ["test names that do not start with `Test` (Benchmark*/Fuzz* satisfy the testingT interface; Clean does not recognise their entries)"],
    },
    "C09": {
        "runs": [
            {"harness": "H_clean", "params": {"prop": 9}, "reach": ["stale-entries", "second-file-stale"], "quick": {"count": 2, "n": 0}, "thorough": {"count": 2, "n": 1, "allsubsets": 1}, "timeout_s": {"thorough": 1800}},
            {"harness": "H_C08_skip", "reach": ["skip-mode"], "quick": {"lit": 1}, "thorough": {"lit": 2}},
            {"harness": "H_C08_midskip"},
            {"harness": "H_C07_symlink"},
            {"harness": "H_C09_odd"},
            {"harness": "H_C09_empty"},
        ],
        "bounds": {"quick": "same program and directory shapes as C07; all three Clean modes incl. sort requested on an unsorted file with stale entries",
                   "thorough": "-count 1..3, all bodies symbolic"},
        "assumptions": COMMON_ASSUME + ["no -run filter, no skipped tests"],
        "outside": [],
    },
    "C08": {
        "runs": [
            {"harness": "H_C08_skip", "reach": ["skip-mode", "run-mode"], "quick": {"lit": 2}, "thorough": {"lit": 3}},
            {"harness": "H_C08_midskip"},
        ],
        "bounds": {"quick": "package with TestA, TestA/sub, TestAB, TestC, Test1 sharing one snapshot file plus TestG in a second file; every subset skipped through "
                            "Skip/Skipf/SkipNow, or a -run pattern [^]lit[$] with lit of 1..2 symbolic bytes over {A,B,C,s,t,u,T,e,1}; clean mode",
                   "thorough": "literal of 1..3 bytes"},
        "assumptions": COMMON_ASSUME + ["regexp.MatchString is summarised exactly for anchored/unanchored literal patterns; go/parser is summarised by the declared function names of a test file",
                                        "which tests `go test -run P` selects follows the level-wise reference model in the harness"],
        "outside": ["-run patterns with alternation, classes or quantifiers", "standalone files and custom Filename/Ext of unselected tests under -run (file-name based lookup of the test source)"],
    },
    "C10": {
        "runs": [
            {"harness": "H_C10_rewrite", "reach": ["no-op", "rewrite"], "quick": {"frames": 2, "n": 1, "digits": 1}, "thorough": {"frames": 2, "n": 0, "digits": 2}, "timeout_s": {"thorough": 1500}},
            {"harness": "H_C10_bodies", "quick": {"lines": 2}, "thorough": {"lines": 3}},
            {"harness": "H_C10_natural"},
            {"harness": "H_C10_ties"},
            {"harness": "H_C10_bodies", "params": {"big": 5000}},
            {"harness": "H_C10_names"},
            {"harness": "H_C10_secondfile"},
            {"harness": "H_C10_both"},
        ],
        "bounds": {"quick": "files of 1..2 entries with ids Test<a-c> - <1-9> (symbolic letter and digit), bodies of <= 1 arbitrary byte, each entry stale or live, update x sort; "
                            "one entry with a 1..2-line structured body (token shapes, header-like line) rewritten because of a stale or unsorted neighbour; one- vs two-digit ordinals (symbolic digits) in both orders; a 5000-byte body across bufio's read buffer; nine unusual test names (brackets, #, dashes, non-ASCII, Benchmark/Fuzz); three files examined in one go, the middle one needing nothing",
                   "thorough": "ordinals of 1..2 digits with empty bodies; structured bodies of 1..3 lines"},
        "assumptions": COMMON_ASSUME + ["well-formed file: ids pairwise distinct, bodies without a `---` line and without CR at end of line"],
        "outside": ["bodies with a whole line equal to the header of an entry of the same file (known finding K2)"],
    },
    "C11": {
        "runs": [
            {"harness": "H_C11_location", "params": {"percent": 1}, "quick": {"n": 1}, "thorough": {"n": 1, "deep": 200}},
            {"harness": "H_C11_nontest"},
            {"harness": "H_C11_created"},
        ],
        "bounds": {"quick": "Dir in {unset, relative, nested relative, absolute} x Filename x Ext x test name x sub-test name, each with a symbolic suffix of <= 1 byte over "
                            "[a-z0-9._%-]; multi-entry / standalone / standalone JSON; 1st and 2nd standalone call; 0..2 helper frames in non-test files (one a closure); with and without trimpath; the same helper reached afterwards from a second test file (with a dot in its name); a test function living in a non-test file, run as a sub-test body, reaching go-snaps through another non-test file",
                   "thorough": "the same with 200 helper frames (suffixes of 2 bytes were tried: z3 answers unknown on the path comparisons after 20 s per query, so that bound is not claimed)"},
        "assumptions": COMMON_ASSUME + ["runtime.Caller reports the interpreter's own call stack (real go-snaps frames; harness frames carry the file names the harness tags them with; "
                                        "testing.tRunner on top); a trimpath build is modelled as runtime.GOROOT()==\"\" with module-relative file names and the package directory as working directory"],
        "outside": ["what the real runtime reports for inlined frames, wrappers and cgo", "helpers that live in a *_test.go file of another directory", "os.Getwd (any use is reported as inconclusive)"],
    },
    "C14": {
        "runs": [
            {"harness": "H_C14_canonical", "quick": {"n": 1}, "thorough": {"n": 2}},
            {"harness": "H_C14_invalid", "reach": ["valid", "invalid"], "quick": {"n": 3}, "thorough": {"n": 4}},
            {"harness": "H_C12_independent", "stress": 20000, "quick": {"preempt": 2}, "thorough": {"preempt": 3}},
            {"harness": "H_C14_update"},
        ],
        "bounds": {"quick": "templates {K1:V1,K2:7}, {K1:{K2:V1}}, [V1,7] with symbolic keys (<= 1 printable byte, distinct, no escapes) and V1 in digit/string/true|false|null/{}|[]; "
                            "one symbolic white-space byte at any one of 7 structural gaps; default, unsorted-tab-indent and width-80 configurations; string, []byte and Go-value forms; "
                            "invalid input: every byte string <= 3 bytes, MatchJSON and MatchStandaloneJSON",
                   "thorough": "keys <= 2 bytes; every byte string <= 4 bytes (keys <= 2 bytes together with a symbolic V2 did not finish in 35 minutes and is not claimed)"},
        "assumptions": COMMON_ASSUME + ["json.Marshal of a Go value is summarised: a value whose standard encoding is the document Doc marshals to Doc (vxrt.JSONValue), Doc without insignificant white space",
                                        "tidwall/pretty and tidwall/gjson are executed from their SSA (not stubbed)"],
        "outside": ["keys with escapes and duplicate keys (pretty's comparator enters encoding/json / ParseFloat)", "documents larger than the templates", "Go values beyond the Marshal summary (reflection)"],
    },
    "C15": {
        "runs": [
            {"harness": "H_C15_json", "quick": {"strlen": 2}, "thorough": {"strlen": 2, "neighbour": 1}},
            {"harness": "H_C15_multi", "quick": {"strlen": 1}, "thorough": {"strlen": 2}},
            {"harness": "H_C15_reuse"},
        ],
        "bounds": {"quick": "document {a:V,o:{k:V},z:[V,2]}; path a, o.k or z.0; the targeted V in 1..2-digit number / string of <= 2 bytes / true|null, the others fixed; placeholder default string, short string, number, bool; Any and Custom; one matcher value applied to two documents in a row (the earlier lacking some of its paths); placeholders needing JSON escapes at three paths; a member named $",
                   "thorough": "one neighbouring value symbolic as well"},
        "assumptions": COMMON_ASSUME + ["tidwall/gjson (GetBytes) and tidwall/sjson (SetBytesOptions) are executed from their SSA, including their unsafe string/[]byte header casts (engine/interp/unsafe.go)"],
        "outside": ["all YAML matchers (goccy/go-yaml lexer, parser, printer and path engine cannot be encoded)", "gjson path syntax beyond plain member/index paths", "keys needing escapes"],
    },
    "C06": {
        "runs": [
            {"harness": "H_C06_parallel", "stress": 20000, "quick": {"preempt": 2}, "thorough": {"preempt": 3}},
            {"harness": "H_C06_twocalls", "stress": 20000, "quick": {"preempt": 2}, "thorough": {"preempt": 3}},
            {"harness": "H_C06_three", "stress": 20000, "quick": {"preempt": 2}, "thorough": {"preempt": 2}},
        ],
        "bounds": {"quick": "2 goroutines, one MatchSnapshot call each, every pair of {create, match, mismatch, update}; every interleaving at file-system and lock operations with <= 2 preemptions; 2 goroutines recording two new snapshots each (file present or brand new); 3 goroutines (two creates / an update / a create) each finishing on its own goroutine, <= 2 preemptions",
                   "thorough": "<= 3 preemptions (three goroutines: 2)"},
        "assumptions": COMMON_ASSUME + ["each file-system operation and each lock operation is atomic; goroutines interleave only at those operations (sequentially consistent model)",
                                        "a schedule-dependent counterexample is confirmed natively by repeating the scenario with real goroutines until it shows"],
        "outside": ["the data-race clause in the Go-memory-model sense (race detector)", "more than 2 goroutines", "multi-syscall writes"],
    },
    "C16": {
        "runs": [
            {"harness": "H_C16_mask", "reach": ["same", "different"], "quick": {"n": 1}, "thorough": {"n": 2}},
            {"harness": "H_C16_update"},
            {"harness": "H_C15_reuse"},
        ],
        "bounds": {"quick": "document {a:S,m:S} with string values of <= 1 byte; m masked by Any, Type[string] or Custom; variants with independent masked values and equal or different unmasked value; MatchJSON and MatchStandaloneJSON",
                   "thorough": "string values of <= 2 bytes"},
        "assumptions": COMMON_ASSUME + ["tidwall gjson/sjson/pretty executed from SSA"],
        "outside": ["YAML matchers (goccy/go-yaml)"],
    },
    "selftest": {
        "runs": [{"harness": "H_selftest"}, {"harness": "H_selftest_regexp"}, {"harness": "H_selftest_lib"}, {"harness": "H_selftest_refprev", "quick": {"n": 2}, "thorough": {"n": 3}}, {"harness": "H_selftest_minmax"}, {"harness": "H_selftest_json", "quick": {"n": 2}, "thorough": {"n": 3}}],
        "bounds": {"quick": "10 texts x ~35 library functions", "thorough": "same"},
        "assumptions": [],
        "outside": [],
        "internal": True,
    },
}
