# Property table: which harness runs decide which property, with the bounds
# per tier. Read by ./check.

COMMON_ASSUME = [
    "class-C stubs answer within their written contracts (DESIGN.md section 5): in-memory file system with atomic operations, "
    "environment variables, runtime.Caller over the interpreter stack, kr/pretty.Sprint = identity on strings without tabwriter control bytes",
    "go/packages + go/ssa produce the SSA the compiler would see; instruction semantics inherited from x/tools go/ssa/interp",
    "z3 4.8.12 is sound on the QF_BV queries issued",
]

PROPS = {
    "C01": {
        "runs": [
            {"harness": "H_C01_snapshot", "quick": {"n": 5}, "thorough": {"n": 7}},
        ],
        "bounds": {"quick": "formatted text <= 5 bytes", "thorough": "formatted text <= 7 bytes"},
        "assumptions": COMMON_ASSUME + ["no line of the text ends in a carriage return (documented limitation)"],
        "outside": ["structured Go values (only their formatted text is quantified)"],
    },
}
