# Property table: which harness runs decide which property, with the bounds
# per tier. Read by ./check.

COMMON_ASSUME = [
    "class-C stubs answer within their written contracts (DESIGN.md section 5): in-memory file system with atomic operations, "
    "environment variables, runtime.Caller over the interpreter stack, kr/pretty.Sprint = identity on strings without tabwriter control bytes",
    "go/packages + go/ssa produce the SSA the compiler would see; instruction semantics inherited from x/tools go/ssa/interp",
    "z3 4.8.12 is sound on the QF_BV queries issued",
]

PROPS = {
    "C01": {
        "runs": [
            {"harness": "H_C01_snapshot", "quick": {"n": 5}, "thorough": {"n": 7}},
        ],
        "bounds": {"quick": "formatted text <= 5 bytes", "thorough": "formatted text <= 7 bytes"},
        "assumptions": COMMON_ASSUME + ["no line of the text ends in a carriage return (documented limitation)"],
        "outside": ["structured Go values (only their formatted text is quantified)"],
    },
    "C02": {
        "runs": [
            {"harness": "H_C02_snapshot", "params": {"ascii": 1}, "quick": {"n": 3}, "thorough": {"n": 5}},
            {"harness": "H_C02_snapshot", "params": {"ascii": 0}, "quick": {"n": 2}, "thorough": {"n": 2}},
            {"harness": "H_C02_snapshot", "params": {"ascii": 1, "n0lo": 7, "n0hi": 7, "n1lo": 3, "n1hi": 3}},
            {"harness": "H_C02_snapshot", "params": {"ascii": 1, "n0lo": 3, "n0hi": 3, "n1lo": 7, "n1hi": 7}},
        ],
        "bounds": {"quick": "MatchSnapshot; ASCII texts <= 3 bytes each; arbitrary bytes <= 2 each; 7-byte vs 3-byte ASCII texts (escape token vs terminator)",
                   "thorough": "ASCII texts <= 5 bytes each; arbitrary bytes <= 2 each; 7 vs 3"},
        "assumptions": COMMON_ASSUME + ["no line of either text ends in a carriage return (documented limitation)"],
        "outside": [],
    },
    "C13": {
        "runs": [
            {"harness": "H_C13_opcodes", "pkg": "difflib", "quick": {"p": 4, "q": 4}, "thorough": {"p": 5, "q": 5}},
            {"harness": "H_C13_opcodes_long", "pkg": "difflib", "params": {"lines": 12}, "quick": {"sym": 1}, "thorough": {"sym": 2}},
            {"harness": "H_C13_opcodes_long", "pkg": "difflib", "params": {"lines": 210}, "quick": {"sym": 1}, "thorough": {"sym": 1}},
            {"harness": "H_C13_empty", "params": {"ascii": 1}, "quick": {"n": 3}, "thorough": {"n": 4}},
            {"harness": "H_C13_empty", "params": {"ascii": 0}, "quick": {"n": 2}, "thorough": {"n": 2}},
            {"harness": "H_C13_render", "quick": {"lines": 3}, "thorough": {"lines": 4}},
        ],
        "bounds": {"quick": "op-codes: all pairs of line sequences up to 4+4 lines (every equality pattern), 12- and 210-line sequences with one free line each; "
                            "emptiness: ASCII texts <= 3 bytes, arbitrary bytes <= 2; rendering: <= 3 lines of one letter each, with/without final newline",
                   "thorough": "op-codes up to 5+5 lines, 12 lines with 2 free lines each; emptiness ASCII <= 4; rendering <= 4 lines"},
        "assumptions": COMMON_ASSUME + ["diffmatchpatch is summarised by: rune sequences equal <=> single Equal chunk (DESIGN 5.5)"],
        "outside": ["appearance of inline highlights (colour mode)", "line contents longer than one byte in the op-code harness (only equality of lines is observed by the code)"],
    },
    "C03": {
        "runs": [
            {"harness": "H_C03_addressing", "quick": {"pre": 2, "calls": 3}, "thorough": {"pre": 11, "calls": 3}},
            {"harness": "H_C03_isolation", "reach": ["add", "update"], "quick": {"frames": 2, "n": 3}, "thorough": {"frames": 3, "n": 3}},
        ],
        "bounds": {"quick": "addressing: 2 tests from a pool of 4 names with prefix relations, 0..2 earlier calls each, 1..3 observed calls, each passing or failing; "
                            "isolation: files of 0..2 frames with bodies <= 3 arbitrary bytes, one add or update with a body <= 3 bytes",
                   "thorough": "0..11 earlier calls (ordinals above 9); files of 0..3 frames"},
        "assumptions": COMMON_ASSUME + ["pre-existing files are well formed: bodies have no whole line `---` and no CR at end of line"],
        "outside": ["interleavings of concurrently running tests (see C06)", "ids that occur as a whole body line of another entry (known finding K2, see C01)"],
    },
    "C04": {
        "runs": [
            {"harness": "H_C04_update", "reach": ["changed", "unchanged"], "quick": {"frames": 2, "n": 2}, "thorough": {"frames": 2, "n": 3}},
            {"harness": "H_C04_standalone", "quick": {"n": 3}, "thorough": {"n": 4}},
        ],
        "bounds": {"quick": "1..2 entries, each changed or not, old/new ASCII texts <= 2 bytes; standalone: texts <= 3 bytes",
                   "thorough": "texts <= 3 bytes; standalone <= 4"},
        "assumptions": COMMON_ASSUME + ["no CR at end of line"],
        "outside": ["MatchJSON/MatchYAML entries in update mode (same storage path as MatchSnapshot)"],
    },
    "C05": {
        "runs": [
            {"harness": "H_C05_match", "reach": ["missing", "equal", "different"], "quick": {"envlen": 5}, "thorough": {"envlen": 6}},
        ],
        "bounds": {"quick": "CI x Update option x UPDATE_SNAPS (any string of <= 5 bytes) x 5 entry points x entry state",
                   "thorough": "UPDATE_SNAPS any string of <= 6 bytes"},
        "assumptions": COMMON_ASSUME + ["ciinfo.IsCI is an arbitrary Boolean fixed at start-up"],
        "outside": [],
    },
}
