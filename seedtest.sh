#!/bin/bash
# seedtest.sh <PID> <k> [check-ids...] : confirm a seeded change and run the checks against it.
# Applies the patch to /repo, verifies build + suite + demo, runs checks, and always undoes the patch.
export VERIF_NO_EVIDENCE=1   # evidence files describe runs on the unchanged tree only
PID=$1; K=$2; shift 2
CHECKS=${@:-$PID}
OUT=${SEEDOUT:-/tmp/seed/out}/$PID
export GOFLAGS=-mod=mod GOPROXY=off GOSUMDB=off GOTOOLCHAIN=local
cd /repo || exit 9
if [ -n "$(git status --porcelain)" ]; then echo "repo not clean"; exit 9; fi
DIR=$(head -1 $OUT/demo${K}_test.go | sed -n 's#^// dir: *##p'); DIR=${DIR:-snaps}
DEMO=/repo/$DIR/zz_seed_demo_test.go
cleanup() { cd /repo; git checkout -q -- .; rm -f $DEMO; git clean -fdq; }
trap cleanup EXIT
# demo on unmodified tree must pass
cp $OUT/demo${K}_test.go $DEMO
TN=$(grep -o 'func Test[A-Za-z0-9_]*' $DEMO | head -1 | sed 's/func //')
if go test -vet=off -count=1 -run "^$TN\$" ./$DIR/ >/tmp/seed/demo_clean.log 2>&1; then echo "demo-on-clean: PASS"; else echo "demo-on-clean: FAIL (bad demo)"; fi
rm -f $DEMO
git apply $OUT/patch${K}.diff || { echo "patch does not apply"; exit 8; }
go build ./... || { echo "does not compile"; exit 7; }
if go test -vet=off -count=1 ./... >/tmp/seed/suite.log 2>&1; then echo "suite-with-change: PASS"; else echo "suite-with-change: FAIL"; fi
cp $OUT/demo${K}_test.go $DEMO
if go test -vet=off -count=1 -run "^$TN\$" ./$DIR/ >/tmp/seed/demo_mut.log 2>&1; then echo "demo-with-change: PASS (demo does not show it)"; else echo "demo-with-change: FAIL (as intended)"; fi
rm -f $DEMO
cd /verif
for c in $CHECKS; do
  ./check $c quick > /tmp/seed/check_$PID_$K_$c.log 2>&1; rc=$?
  echo "check $c: exit=$rc $(grep -c '^VIOLATION' /tmp/seed/check_$PID_$K_$c.log) violation line(s); $(grep -m1 -o 'INCONCLUSIVE.\{0,160\}' /tmp/seed/check_$PID_$K_$c.log)"
  grep -m2 "^  H_" /tmp/seed/check_$PID_$K_$c.log | cut -c1-260
done
