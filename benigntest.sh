#!/bin/bash
# benigntest.sh <patch.diff> <Cxx>... : applies a behaviour-preserving change to the repository
# (VERIF_REPO, default /repo; must be clean), runs the named quick checks (all twenty if none named) and
# reports every check that does not exit 0 - used to look for false alarms and inconclusive answers.
export VERIF_NO_EVIDENCE=1   # evidence files describe runs on the unchanged tree only
REPO=${VERIF_REPO:-/repo}
cd "$(dirname "$0")"
p=$1; shift
ids="$@"; [ -z "$ids" ] && ids=$(seq -f "C%02g" 1 20)
[ -n "$(git -C $REPO status --porcelain)" ] && { echo "repo not clean"; exit 9; }
git -C $REPO apply $p || { echo "patch does not apply"; exit 8; }
bad=0
for c in $ids; do
  VERIF_REPO=$REPO ./check $c quick > /tmp/benign_$c.log 2>&1; rc=$?
  if [ $rc != 0 ]; then bad=$((bad+1)); echo "  $c rc=$rc: $(grep -E 'VIOLATION|INCONCLUSIVE|inconclusive|abort' /tmp/benign_$c.log | head -3 | cut -c1-300)"; fi
done
git -C $REPO checkout -q -- .; git -C $REPO clean -fdq
echo "$(basename $(dirname $p))/$(basename $p): non-zero=$bad of $(echo $ids | wc -w)"
