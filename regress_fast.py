#!/usr/bin/env python3
"""regress_fast.py [pattern] : quick regression over the stored seeded changes. For each change it
applies the patch to a scratch worktree of /repo (created under /tmp and removed at the end), runs
only the engine on the harness(es) named in meta.json's caught_by (quick parameters, symbolic side
only, no native replay) and reports whether a violation is still found. Faster than
regress_seeds.sh (which runs whole checks with native confirmation) by an order of magnitude; use
that one for the final word."""
import glob, json, os, re, subprocess, sys, tempfile, shutil
ROOT = os.path.dirname(os.path.abspath(__file__))
sys.path.insert(0, ROOT)
from props import PROPS
pat = sys.argv[1] if len(sys.argv) > 1 else ''
scratch = tempfile.mkdtemp(prefix='vx-regress-')
repo = os.path.join(scratch, 'repo')
subprocess.run(['git', '-C', '/repo', 'worktree', 'add', '--detach', repo, 'HEAD'], stdout=subprocess.DEVNULL, stderr=subprocess.DEVNULL, check=True)
def pkg_dir(pkg): return {"snaps": "snaps", "difflib": "internal/difflib", "match": "match"}[pkg]
def overlay(pkg):
    ov = [f"{repo}/internal/vxrt/types.go={ROOT}/harness/vxrt/types.go", f"{repo}/internal/vxrt/sym.go={ROOT}/harness/vxrt/sym.go"]
    for f in sorted(os.listdir(f"{ROOT}/harness/{pkg}")):
        if f.endswith('.go') and not f.endswith('_test.go'):
            ov.append(f"{repo}/{pkg_dir(pkg)}/zz_{f}={ROOT}/harness/{pkg}/{f}")
    return ov
same = changed = 0
try:
    for d in sorted(glob.glob(f'{ROOT}/seeded/*{pat}*/')):
        name = os.path.basename(d.rstrip('/'))
        m = json.load(open(d + 'meta.json'))
        expect = 'miss' if m['caught_by'].startswith('NOT CAUGHT') else 'caught'
        hs = re.findall(r'\bH_\w+', m['caught_by'])
        props = [m['property']] + re.findall(r'\bC\d\d\b', m['caught_by'])
        if expect == 'miss':
            hs = [r['harness'] for r in PROPS[m['property']]['runs']]
        subprocess.run(['git', '-C', repo, 'reset', '--hard', '-q'])
        subprocess.run(['git', '-C', repo, 'clean', '-fdq'])
        if subprocess.run(['git', '-C', repo, 'apply', '--3way', d + 'patch.diff'], stdout=subprocess.DEVNULL, stderr=subprocess.DEVNULL).returncode != 0:
            print(f'{name}: patch no longer applies (skipped)'); continue
        subprocess.run(['git', '-C', repo, 'reset', '-q'])
        res, note = 'miss', ''
        done = set()
        for p in props:
            for run in PROPS.get(p, {}).get('runs', []):
                if run['harness'] not in hs or run.get('thorough_only'):
                    continue
                params = dict(run.get('params', {})); params.update(run.get('quick', {}))
                key = (run['harness'], json.dumps(params, sort_keys=True))
                if key in done: continue
                done.add(key)
                pkg = run.get('pkg', 'snaps')
                out = os.path.join(scratch, 'r.json')
                cmd = [f'{ROOT}/bin/gosym', '-repo', repo, '-pkg', 'github.com/gkampitakis/go-snaps/' + pkg_dir(pkg), '-harness', run['harness'], '-out', out,
                       '-workers', '16', '-max-violations', '1'] + run.get('args', [])
                for o in overlay(pkg): cmd += ['-overlay', o]
                for k, v in params.items(): cmd += ['-param', f'{k}={v}']
                pr = subprocess.run(cmd, stdout=subprocess.PIPE, stderr=subprocess.STDOUT, text=True, timeout=900)
                try:
                    r = json.load(open(out))
                    if r.get('violations'):
                        res = 'caught'; note = f"{run['harness']} {r['violations'][0]['label']}"; break
                    if r.get('inconclusive'): note = 'inconclusive: ' + str(r['inconclusive'][0])[:80]
                except Exception as e:
                    note = 'engine error: ' + pr.stdout[-200:].replace('\n', ' ')
            if res == 'caught': break
        if res == expect: same += 1; print(f'{name}: {res} (as recorded) {note}')
        else: changed += 1; print(f'{name}: {res} BUT RECORDED {expect} {note}')
        sys.stdout.flush()
finally:
    subprocess.run(['git', '-C', '/repo', 'worktree', 'remove', '--force', repo])
    shutil.rmtree(scratch, ignore_errors=True)
print(f'same={same} changed={changed}')
