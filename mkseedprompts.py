#!/usr/bin/env python3
"""mkseedprompts.py <round-dir> : prepares a seeding round. For every property it writes
<round-dir>/out/<id>/prompt.txt (the property text, the task, and one-line descriptions of the
changes already stored under seeded/ for that property so that the new ones differ) and creates a
scratch git worktree <round-dir>/<id> of /repo. The prompts contain nothing from /verif except the
property text and those one-liners. Each prompt is then given to a fresh sub-agent."""
import json, os, re, sys, glob, subprocess
root = sys.argv[1]
ids = sys.argv[2:] or None
props = [json.loads(l) for l in open('/verif/properties.jsonl')]
for p in props:
    pid = p['id']
    if ids and pid not in ids:
        continue
    wt = f'{root}/{pid}'
    out = f'{root}/out/{pid}'
    os.makedirs(out, exist_ok=True)
    if not os.path.isdir(wt):
        subprocess.run(['git', '-C', '/repo', 'worktree', 'add', '--detach', wt, 'HEAD'], stdout=subprocess.DEVNULL, stderr=subprocess.DEVNULL)
    text = f"{pid}: {p['title']}\n\n{p['statement']}\n\nQuantifier: {p['quantifier']['text']}\n"
    earlier = []
    for d in sorted(glob.glob(f'/verif/seeded/{pid}-*/')):
        m = json.load(open(d + 'meta.json'))
        first = re.sub(r'^Change[^:]*:\s*', '', m['what'].split('\n')[0])
        earlier.append('  - ' + first[:330])
    earlier_txt = ''
    if earlier:
        earlier_txt = ("Changes of the following kinds have ALREADY been produced by others for this property; yours must be clearly different "
                       "from all of them (a different code site or a different mechanism):\n" + '\n'.join(earlier) + '\n\n')
    prompt = f"""You are helping to test a verification effort for the Go library gkampitakis/go-snaps (a Jest-like snapshot testing library). You have your own scratch git worktree of the library at {wt} (module github.com/gkampitakis/go-snaps). Work ONLY inside {wt} and write your results to {out}/. Do not read or touch /verif, /repo, or other directories under /tmp, and do not commit anything. Do not use `git stash` (the stash is shared with other worktrees); use `git apply` / `git apply -R` or `git checkout -- .` instead.

The sandbox has no network. For every go command use: export GOFLAGS=-mod=mod GOPROXY=off GOSUMDB=off GOTOOLCHAIN=local

Here is a semantic property that the library is supposed to satisfy:

---
{text}
---

Your task: produce TWO different, realistic source changes to the library (non-test .go files under snaps/, match/ or internal/), each of which
  (a) still compiles,
  (b) still passes the ENTIRE existing test suite unchanged (`cd {wt} && go test -vet=off -count=1 ./...`), and
  (c) BREAKS the property above.
Prefer changes that a developer could plausibly make by mistake or as a misguided refactor/optimisation, and that need something SPECIFIC to manifest - an unusual input, a particular multi-step sequence of operations, a particular interleaving, a particular mode/configuration combination, or two cooperating sites that each look fine alone - rather than changes that ordinary use would expose at once. The two changes should break the property through different mechanisms/code sites.

{earlier_txt}For each change k in {{1,2}} deliver, in {out}/:
  - patch{{k}}.diff : the change as `git diff` output (made against the unmodified worktree; it must apply with `git apply` in a clean checkout),
  - demo{{k}}_test.go : a small Go test file (package snaps, or the package you changed; state which directory it belongs in on its first comment line, e.g. `// dir: snaps`) with a single test function that FAILS when the change is applied and PASSES on the unmodified library. The demo may be white-box (same package) and may use the mock testing helper in internal/test if useful. It must not depend on network access, must not depend on its own file name, and must clean up any files it creates (use t.TempDir() / snaps.Dir(absolute path)); it must not modify files of the repository.
  - meta{{k}}.txt : 3-6 lines: what the change does, why the existing tests do not notice, and exactly what is needed for the violation to manifest.
Verify all of (a),(b),(c) yourself for each change: run the full suite with the change applied, run your demo with and without the change (copy the demo into the stated directory to run it, and remove it again afterwards). Leave the worktree clean at the end (`git -C {wt} checkout -- . && git -C {wt} clean -fdq`).
Finish with a two-line summary per change. Keep it concise."""
    open(f'{out}/prompt.txt', 'w').write(prompt)
    print(pid, len(earlier), 'earlier changes listed')
