#!/bin/bash
# regress_seeds.sh [pattern] : re-applies every seeded change under seeded/ to the repository
# (VERIF_REPO, default /repo; the tree must be clean), runs the quick check of its property (and of the
# neighbouring property named in meta.json's caught_by, if any) and reports whether it is still caught.
export VERIF_NO_EVIDENCE=1   # evidence files describe runs on the unchanged tree only
REPO=${VERIF_REPO:-/repo}
cd "$(dirname "$0")"
PAT=${1:-}
# optional sharding: SHARD=i/n handles every n-th stored change (run the shards on separate repository copies)
SI=${SHARD%/*}; SN=${SHARD#*/}; [ -z "$SHARD" ] && { SI=0; SN=1; }
ok=0; lost=0; skipped=0; idx=0
for d in seeded/*${PAT}*/; do
  idx=$((idx+1)); [ $((idx % SN)) = "$SI" ] || continue
  name=$(basename $d)
  expect=$(python3 -c "import json;m=json.load(open('$d/meta.json'));print('miss' if m['caught_by'].startswith('NOT CAUGHT') else 'caught')")
  checks=$(python3 -c "
import json,re
m=json.load(open('$d/meta.json'))
ids=[m['property']]+re.findall(r'\bC\d\d\b', m['caught_by'].split('(')[0])
out=[]
for i in ids:
    if i not in out: out.append(i)
print(' '.join(out))")
  if [ -n "$(git -C $REPO status --porcelain)" ]; then echo "repo not clean"; exit 9; fi
  if ! git -C $REPO apply --3way $PWD/$d/patch.diff >/dev/null 2>&1; then
    git -C $REPO checkout -q -- . ; git -C $REPO reset -q; echo "$name: patch no longer applies (skipped)"; skipped=$((skipped+1)); continue
  fi
  git -C $REPO reset -q
  res=miss
  for c in $checks; do
    VERIF_REPO=$REPO ./check $c quick > /tmp/regress_$name.log 2>&1; rc=$?
    if [ $rc = 1 ]; then res=caught; break; fi
  done
  git -C $REPO checkout -q -- .; git -C $REPO clean -fdq
  if [ $res = $expect ]; then ok=$((ok+1)); echo "$name: $res (as recorded)"; else lost=$((lost+1)); echo "$name: $res BUT RECORDED $expect"; fi
done
echo "same=$ok changed=$lost skipped=$skipped"
