#!/usr/bin/env python3
"""benign_fast.py [pattern] : quick false-alarm regression over the behaviour-preserving changes in
benign/. Each patch is applied to a scratch worktree of /repo and the engine is run (symbolic side
only, quick parameters) on every harness of the checks its area touches; any violation or
inconclusive answer is reported. The slow, complete version is benigntest.sh."""
import glob, json, os, re, subprocess, sys, tempfile, shutil
ROOT = os.path.dirname(os.path.abspath(__file__))
sys.path.insert(0, ROOT)
from props import PROPS
AREA = {"A1": "C01 C02 C03 C04 C06 C18 C19", "A2": "C05 C07 C09 C10 C20", "A3": "C05 C08 C09 C11", "A4": "C14 C15 C16 C17 C19 C20",
        "A5": "C01 C02 C13 C18", "A6": "C13 C02", "A7": "C15 C16 C17", "A8": "C11 C12 C19 C14",
        "B1": "C01 C02 C03 C04 C06 C18 C19 C20", "B2": "C05 C07 C09 C10 C20", "B3": "C05 C08 C09 C11 C20", "B4": "C01 C02 C14 C15 C16 C17 C18 C19 C20",
        "B5": "C02 C13", "B6": "C15 C16 C17", "D1": "C01 C03 C04 C06 C19", "D2": "C07 C09 C10 C20", "D3": "C05 C08 C09", "D4": "C01 C14 C17 C19",
        "D5": "C02 C13", "D6": "C15 C16 C17"}
pat = sys.argv[1] if len(sys.argv) > 1 else ''
workers = os.environ.get("VERIF_WORKERS", "8")
scratch = tempfile.mkdtemp(prefix='vx-benign-')
repo = os.path.join(scratch, 'repo')
subprocess.run(['git', '-C', '/repo', 'worktree', 'add', '--detach', repo, 'HEAD'], stdout=subprocess.DEVNULL, stderr=subprocess.DEVNULL, check=True)
def pkg_dir(pkg): return {"snaps": "snaps", "difflib": "internal/difflib", "match": "match"}[pkg]
def overlay(pkg):
    ov = [f"{repo}/internal/vxrt/types.go={ROOT}/harness/vxrt/types.go", f"{repo}/internal/vxrt/sym.go={ROOT}/harness/vxrt/sym.go"]
    for f in sorted(os.listdir(f"{ROOT}/harness/{pkg}")):
        if f.endswith('.go') and not f.endswith('_test.go'):
            ov.append(f"{repo}/{pkg_dir(pkg)}/zz_{f}={ROOT}/harness/{pkg}/{f}")
    return ov
bad = 0
try:
    for p in sorted(glob.glob(f'{ROOT}/benign/*{pat}*.diff')):
        name = os.path.basename(p)[:-5]
        subprocess.run(['git', '-C', repo, 'reset', '--hard', '-q']); subprocess.run(['git', '-C', repo, 'clean', '-fdq'])
        if subprocess.run(['git', '-C', repo, 'apply', p], stdout=subprocess.DEVNULL, stderr=subprocess.DEVNULL).returncode != 0:
            print(f'{name}: patch does not apply'); continue
        viol, inc, done = [], [], set()
        for c in AREA[name.split('-')[0]].split():
            for run in PROPS[c]['runs']:
                if run.get('thorough_only'): continue
                params = dict(run.get('params', {})); params.update(run.get('quick', {}))
                key = (run['harness'], json.dumps(params, sort_keys=True))
                if key in done: continue
                done.add(key)
                pkg = run.get('pkg', 'snaps'); out = os.path.join(scratch, 'r.json')
                cmd = [f'{ROOT}/bin/gosym', '-repo', repo, '-pkg', 'github.com/gkampitakis/go-snaps/' + pkg_dir(pkg), '-harness', run['harness'], '-out', out,
                       '-workers', workers, '-max-violations', '1'] + run.get('args', [])
                for o in overlay(pkg): cmd += ['-overlay', o]
                for k, v in params.items(): cmd += ['-param', f'{k}={v}']
                pr = subprocess.run(cmd, stdout=subprocess.PIPE, stderr=subprocess.STDOUT, text=True, timeout=1800)
                try:
                    r = json.load(open(out)); os.remove(out)
                    if r.get('violations'): viol.append(f"{run['harness']}:{r['violations'][0]['label']}")
                    if r.get('inconclusive'): inc.append(f"{run['harness']}:{str(r['inconclusive'][0])[:60]}")
                except Exception:
                    inc.append(f"{run['harness']}:engine could not load ({pr.stdout.strip().splitlines()[-1][:80] if pr.stdout.strip() else ''})")
        if viol: bad += 1
        print(f"{name}: {'VIOLATIONS ' + str(viol[:3]) if viol else 'no violation'}; inconclusive: {len(inc)} {inc[:2] if inc else ''}")
        sys.stdout.flush()
finally:
    subprocess.run(['git', '-C', '/repo', 'worktree', 'remove', '--force', repo]); shutil.rmtree(scratch, ignore_errors=True)
print(f'patches with violations: {bad}')
