//go:build verif || verif_replay

package difflib

import (
	"github.com/gkampitakis/go-snaps/internal/vxrt"
)

func symLines(label string, n int) []string {
	out := make([]string, n)
	for i := range out {
		out[i] = vxrt.Text(label, 1)
	}
	return out
}

// H_C13_opcodes: the edit script tiles both sequences contiguously, marks as
// equal only identical lines, replays a into b, and grouped hunks never omit
// a changed line. Each line is one symbolic byte: the code only observes
// equality of lines, so the equality partition of the p+q lines is the
// complete abstraction.
func H_C13_opcodes() {
	p := vxrt.Len("p", vxrt.Param("pmin", 0), vxrt.Param("p", 3))
	q := vxrt.Len("q", vxrt.Param("qmin", 0), vxrt.Param("q", 3))
	a := symLines("a", p)
	b := symLines("b", q)
	if k := vxrt.Param("alphabet", 0); k > 0 {
		// lines over a k-letter alphabet: bounds the number of equality patterns,
		// which lets longer sequences be covered completely
		for _, l := range append(append([]string{}, a...), b...) {
			vxrt.Assume(vxrt.And(l[0] >= 'a', l[0] < byte('a'+k)))
		}
	}
	checkOpcodes(a, b)
}

// H_C13_opcodes_long: long sequences with a few symbolic lines among concrete
// ones (hunk headers need > 10 lines; the popular-line heuristic needs >= 200).
func H_C13_opcodes_long() {
	n := vxrt.Param("lines", 12)
	k := vxrt.Param("sym", 2)
	a := make([]string, n)
	b := make([]string, n)
	for i := 0; i < n; i++ {
		// a repeating alphabet so that popular lines exist
		a[i] = string(rune('a' + i%3))
		b[i] = a[i]
	}
	pos := []int{0, 1, n / 2, n - 2, n - 1}
	for s := 0; s < k; s++ {
		pa := pos[vxrt.Choice("posA", len(pos))]
		a[pa] = vxrt.Text("la", 1)
		pb := pos[vxrt.Choice("posB", len(pos))]
		b[pb] = vxrt.Text("lb", 1)
	}
	checkOpcodes(a, b)
}

func checkOpcodes(a, b []string) {
	p, q := len(a), len(b)
	m := NewMatcher(a, b)
	ops := m.getOpCodes()

	i, j := 0, 0
	shape := true
	equalOK := true
	for _, op := range ops {
		shape = shape && op.I1 == i && op.J1 == j && op.I2 >= op.I1 && op.J2 >= op.J1 && op.I2 <= p && op.J2 <= q
		if !shape {
			break
		}
		switch op.Tag {
		case OpEqual:
			shape = shape && op.I2-op.I1 == op.J2-op.J1 && op.I2 > op.I1
			if shape {
				for k := 0; k < op.I2-op.I1; k++ {
					equalOK = vxrt.And(equalOK, vxrt.Eq(a[op.I1+k], b[op.J1+k]))
				}
			}
		case OpInsert:
			shape = shape && op.I1 == op.I2 && op.J2 > op.J1
		case OpDelete:
			shape = shape && op.J1 == op.J2 && op.I2 > op.I1
		case OpReplace:
			shape = shape && op.I2 > op.I1 && op.J2 > op.J1
		default:
			shape = false
		}
		i, j = op.I2, op.J2
	}
	vxrt.Assert(shape, "C13:opcodes-tile-contiguously")
	vxrt.Assert(i == p && j == q, "C13:opcodes-cover-both")
	vxrt.Assert(equalOK, "C13:equal-ranges-identical")

	// replay a into b
	out := []string{}
	for _, op := range ops {
		if op.Tag == OpEqual {
			out = append(out, a[op.I1:op.I2]...)
		} else {
			out = append(out, b[op.J1:op.J2]...)
		}
	}
	same := len(out) == q
	if same {
		for k := range out {
			same = vxrt.And(same, vxrt.Eq(out[k], b[k]))
		}
	}
	vxrt.Assert(same, "C13:script-replays-a-into-b")

	// grouped hunks: every changed position of a and b is inside some hunk,
	// hunks are in order and carry at most `context` equal lines at the edges
	const ctx = 3
	groups := m.GetGroupedOpCodes(ctx)
	covA := make([]bool, p)
	covB := make([]bool, q)
	gshape := true
	for _, g := range groups {
		for gi, op := range g {
			if op.Tag == OpEqual {
				if (gi == 0 || gi == len(g)-1) && op.I2-op.I1 > ctx && !(p == 0 && q == 0) {
					gshape = false
				}
				continue
			}
			for k := op.I1; k < op.I2 && k < p; k++ {
				covA[k] = true
			}
			for k := op.J1; k < op.J2 && k < q; k++ {
				covB[k] = true
			}
		}
	}
	all := true
	for _, op := range ops {
		if op.Tag == OpEqual {
			continue
		}
		for k := op.I1; k < op.I2; k++ {
			all = all && covA[k]
		}
		for k := op.J1; k < op.J2; k++ {
			all = all && covB[k]
		}
	}
	vxrt.Assert(all, "C13:hunks-omit-no-change")
	vxrt.Assert(gshape, "C13:hunk-context-bounded")
}

// H_C13_popular: texts long enough for the "popular line" heuristic (200+ lines): distinct lines
// with a blank line after every second one (the blank line is popular), the two texts differing by
// one blank line removed or one distinct line changed somewhere; op-codes are checked as usual.
func H_C13_popular() {
	n := vxrt.Param("lines", 210)
	var b []string
	for i := 0; i < n; i++ {
		if i%3 == 2 {
			b = append(b, "")
		} else {
			b = append(b, "line "+string(rune('0'+i/100))+string(rune('0'+(i/10)%10))+string(rune('0'+i%10)))
		}
	}
	a := append([]string(nil), b...)
	pos := []int{2, 5, n/2 - n/2%3 + 2, n - 4 - (n-4)%3 + 2}[vxrt.Choice("where", 4)]
	switch vxrt.Choice("difference", 3) {
	case 0: // the stored text lacks one blank line that the received one has
		a = append(a[:pos:pos], a[pos+1:]...)
	case 1: // the received text lacks it
		b = append(b[:pos:pos], b[pos+1:]...)
	default: // a distinct line next to a blank one differs
		a[pos-1] = "changed"
	}
	checkOpcodes(a, b)
}
