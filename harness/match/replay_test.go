//go:build verif_replay

package match

import (
	"encoding/json"
	"os"
	"testing"

	"github.com/gkampitakis/go-snaps/internal/vxrt"
)

// TestVXReplay runs one harness natively on the inputs of a replay file.
func TestVXReplay(t *testing.T) {
	file := os.Getenv("VX_REPLAY")
	if file == "" {
		t.Skip("no replay file")
	}
	fn, ok := vxHarnesses[os.Getenv("VX_HARNESS")]
	if !ok {
		t.Fatalf("unknown harness %q", os.Getenv("VX_HARNESS"))
	}
	if err := vxrt.Begin(file); err != nil {
		t.Fatal(err)
	}
	vxrt.Run(fn)
	o := vxrt.End()
	b, _ := json.Marshal(o)
	if err := os.WriteFile(os.Getenv("VX_OUT"), b, 0o644); err != nil {
		t.Fatal(err)
	}
}
