//go:build verif

package vxrt

import "testing"

// Intercepted by the symbolic executor (gosym/interp/ext_vx.go).

func Byte(label string) byte
func Bool(label string) bool
func Int(label string, lo, hi int) int
func Len(label string, lo, hi int) int
func Choice(label string, n int) int
func Bytes(label string, n int) []byte
func Text(label string, n int) string
func Assume(c bool)
func Assert(c bool, label string)
func Reach(label string)
func Param(name string, def int) int
func Logf(s string)
func Dir() string
func FSStamp() string
func FSFaults(on bool)
func EnvSymbolic(name string, max int)
func EnvFixed(name, val string)
func EnvUnset(name string)
func EnvPresent(name string)
func CI(on bool)
func CISymbolic()
func Trimpath(on bool)
func Freeze(p any, what string)
func Shared(p any)
func FileStamp(path string) string
func Symlink(target, link string)
func RunAsSubtest(f func(t *testing.T))
func SharedGlobals(prefix string)
func FrameFile(name string)
func Symbolic() bool
func Jitter()
func Calibrate(ok bool, what string)
func Stress() bool
func Stagger()
func Stdout() string
func Flag(name, val string)
func TestSources(path string, funcs ...string)
func Oracle(name string) bool
func Yield()
func Preemptions() int
func Eq(a, b string) bool
func And(a, b bool) bool
func Or(a, b bool) bool
func Not(a bool) bool
func Implies(a, b bool) bool
func YAMLAssume(valid bool)
func TestFileDir() string
func TestFileBase() string
func Chdir()
