//go:build verif || verif_replay

// Package vxrt is the harness run-time of the gosym checks. It is overlaid
// onto the repository (never committed there). Under tag `verif` its API is a
// set of bodiless functions the symbolic executor intercepts; under tag
// `verif_replay` the same API is implemented natively and fed from a replay
// file, so one harness source runs both ways.
package vxrt

import (
	"io/fs"
	"time"
)

// Err is the error type the os stubs return.
type Err struct {
	Msg      string
	NotExist bool
}

func (e *Err) Error() string { return e.Msg }

// Is makes errors.Is(err, fs.ErrNotExist) work for "no such file" errors.
func (e *Err) Is(target error) bool { return e.NotExist && target == fs.ErrNotExist }

// WrapErr is what the fmt.Errorf summary returns.
type WrapErr struct {
	Msg string
	Err error
}

func (e *WrapErr) Error() string { return e.Msg }
func (e *WrapErr) Unwrap() error { return e.Err }

// DirEntry is what the os.ReadDir stub returns.
type DirEntry struct {
	N   string
	Dir bool
}

func (d *DirEntry) Name() string               { return d.N }
func (d *DirEntry) IsDir() bool                { return d.Dir }
func (d *DirEntry) Type() fs.FileMode          { return 0 }
func (d *DirEntry) Info() (fs.FileInfo, error) { return nil, nil }

// FileInfo is what the (*os.File).Stat stub returns.
type FileInfo struct {
	N    string
	Sz   int64
	Dir  bool
	Link bool
}

func (f *FileInfo) Size() int64  { return f.Sz }
func (f *FileInfo) Name() string { return f.N }
func (f *FileInfo) IsDir() bool  { return f.Dir }
func (f *FileInfo) Mode() fs.FileMode {
	switch {
	case f.Link:
		return fs.ModeSymlink | 0o777
	case f.Dir:
		return fs.ModeDir | 0o755
	}
	return 0o644
}
func (f *FileInfo) ModTime() time.Time { return time.Time{} }
func (f *FileInfo) Sys() any           { return nil }

// JSONValue is a Go value whose standard JSON encoding is Doc.
type JSONValue struct{ Doc string }

func (j JSONValue) MarshalJSON() ([]byte, error) { return []byte(j.Doc), nil }

// Deep calls f below depth frames of a helper that lives in a non-test file of
// another directory (this one) - in both the symbolic and the native build.
func Deep(depth int, f func()) {
	if depth > 0 {
		Deep(depth-1, f)
		return
	}
	f()
}
