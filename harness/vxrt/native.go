//go:build verif_replay

package vxrt

// Native implementation of the harness API: inputs come from a replay file
// produced from a solver model; the file system is a real temporary
// directory; nothing is stubbed.

import (
	"encoding/json"
	"flag"
	"fmt"
	"math/rand"
	"os"
	"path/filepath"
	"reflect"
	"runtime"
	"sort"
	"strings"
	"sync"
	"sync/atomic"
	"syscall"
	"testing"
	"time"
)

type Input struct {
	Kind  string `json:"kind"`
	Label string `json:"label"`
	N     int    `json:"n"`
	Vals  []int  `json:"vals"`
}

type Replay struct {
	Harness string            `json:"harness"`
	Label   string            `json:"label"`
	Inputs  []Input           `json:"inputs"`
	Env     map[string]string `json:"env"`
	Params  map[string]int    `json:"params"`
}

type Outcome struct {
	Failures     []string `json:"failures"`
	AssumeFailed bool     `json:"assume_failed"`
	Mismatch     string   `json:"mismatch,omitempty"`
	Panic        string   `json:"panic,omitempty"`
	Reached      []string `json:"reached"`
	Obs          []string `json:"observations"`
	Inapplicable string   `json:"inapplicable,omitempty"`
	Iterations   int      `json:"iterations,omitempty"`
}

type stop struct{ why string }

var (
	rp      Replay
	pos     int
	out     Outcome
	dir     string
	frozen  []frozenObj
	stdoutF *os.File
	oldOut  *os.File
)

type frozenObj struct {
	what string
	ptr  reflect.Value
	copy reflect.Value
}

// Begin loads the replay file and prepares the temporary directory.
func Begin(file string) error {
	b, err := os.ReadFile(file)
	if err != nil {
		return err
	}
	rp = Replay{}
	if err := json.Unmarshal(b, &rp); err != nil {
		return err
	}
	pos = 0
	out = Outcome{Failures: []string{}, Reached: []string{}, Obs: []string{}}
	frozen = nil
	dir, err = os.MkdirTemp("", "vxreplay")
	if err != nil {
		return err
	}
	dir, _ = filepath.EvalSymlinks(dir)
	dir = filepath.Join(dir, "vfs")
	if err := os.MkdirAll(dir, 0o755); err != nil {
		return err
	}
	stdoutF, err = os.CreateTemp("", "vxstdout")
	if err != nil {
		return err
	}
	oldOut = os.Stdout
	os.Stdout = stdoutF
	for _, in := range rp.Inputs {
		if in.Kind == "fault" && len(in.Vals) > 0 && in.Vals[0] != 0 {
			out.Inapplicable = "file-system fault cannot be injected natively"
		}
	}
	return nil
}

// Run executes f, converting harness stops and panics into the outcome.
func Run(f func()) {
	defer func() {
		if r := recover(); r != nil {
			if s, ok := r.(stop); ok {
				if s.why == "assume" {
					out.AssumeFailed = true
				} else {
					out.Mismatch = s.why
				}
				return
			}
			out.Panic = fmt.Sprint(r)
			out.Failures = append(out.Failures, "panic")
		}
	}()
	defer stopWatchers()
	f()
	for _, fo := range frozen {
		if !reflect.DeepEqual(fo.ptr.Elem().Interface(), fo.copy.Interface()) {
			out.Failures = append(out.Failures, "frozen-write")
		}
	}
}

// End restores the process state and returns the outcome.
func End() Outcome {
	for name, val := range savedFlags {
		if f := flag.Lookup(name); f != nil {
			f.Value.Set(val)
		}
		delete(savedFlags, name)
	}
	if oldWd != "" {
		os.Chdir(oldWd)
		oldWd = ""
	}
	if oldOut != nil {
		os.Stdout = oldOut
	}
	if stdoutF != nil {
		stdoutF.Close()
		os.Remove(stdoutF.Name())
	}
	if dir != "" {
		os.RemoveAll(filepath.Dir(dir))
	}
	return out
}

var apiKinds = map[string]bool{"byte": true, "bool": true, "int": true, "len": true, "choice": true, "bytes": true, "oracle": true}

func next(kind string) Input {
	for pos < len(rp.Inputs) && !apiKinds[rp.Inputs[pos].Kind] {
		pos++
	}
	if pos >= len(rp.Inputs) {
		panic(stop{"replay file exhausted at " + kind})
	}
	in := rp.Inputs[pos]
	pos++
	if in.Kind != kind {
		panic(stop{fmt.Sprintf("replay mismatch: want %s, have %s(%s)", kind, in.Kind, in.Label)})
	}
	return in
}

func Byte(label string) byte { return byte(next("byte").Vals[0]) }
func Bool(label string) bool { return next("bool").Vals[0] != 0 }
func Int(label string, lo, hi int) int {
	return next("int").Vals[0]
}
func Len(label string, lo, hi int) int { return next("len").N }
func Choice(label string, n int) int   { return next("choice").N }
func Oracle(name string) bool          { return next("oracle").Vals[0] != 0 }
func Text(label string, n int) string  { return string(Bytes(label, n)) }
func Bytes(label string, n int) []byte {
	in := next("bytes")
	if len(in.Vals) != n {
		panic(stop{fmt.Sprintf("replay mismatch: bytes %s has %d values, want %d", label, len(in.Vals), n)})
	}
	b := make([]byte, n)
	for i, v := range in.Vals {
		b[i] = byte(v)
	}
	return b
}

func Assume(c bool) {
	if !c {
		panic(stop{"assume"})
	}
}

func Assert(c bool, label string) {
	if !c {
		out.Failures = append(out.Failures, label)
	}
}

func Reach(label string) { out.Reached = append(out.Reached, label) }

func Param(name string, def int) int {
	if v, ok := rp.Params[name]; ok {
		return v
	}
	return def
}

func Logf(s string) { out.Obs = append(out.Obs, s) }
func Dir() string   { return dir }

// FSStamp is a signature of the directory tree that changes whenever any
// file is created, removed or written (even with identical content).
func FSStamp() string {
	var parts []string
	filepath.Walk(dir, func(p string, info os.FileInfo, err error) error {
		if err != nil {
			return nil
		}
		ino := uint64(0)
		if st, ok := info.Sys().(*syscall.Stat_t); ok {
			ino = st.Ino
		}
		if info.IsDir() {
			parts = append(parts, fmt.Sprintf("D %s", p))
		} else {
			parts = append(parts, fmt.Sprintf("F %s %d %d %d", p, info.Size(), info.ModTime().UnixNano(), ino))
		}
		return nil
	})
	sort.Strings(parts)
	return strings.Join(parts, "\n")
}

// TestingT is the *testing.T of the replay test (set by it before the harness runs).
var TestingT *testing.T

// RunAsSubtest runs f as a real sub-test body: on a goroutine of its own whose stack is rooted
// in testing.tRunner, with f as the outermost frame.
func RunAsSubtest(f func(t *testing.T)) {
	if TestingT == nil {
		panic(stop{"RunAsSubtest: no testing.T"})
	}
	TestingT.Run("sub", f)
}

// Symlink makes link a symbolic link to the directory target.
func Symlink(target, link string) {
	if err := os.Symlink(target, link); err != nil {
		panic(stop{"symlink: " + err.Error()})
	}
}

// FileStamp is a signature of one file that changes whenever the file is rewritten.
func FileStamp(path string) string {
	info, err := os.Stat(path)
	if err != nil {
		return "<missing>"
	}
	ino := uint64(0)
	if st, ok := info.Sys().(*syscall.Stat_t); ok {
		ino = st.Ino
	}
	return fmt.Sprintf("file:%d:%d:%d", ino, info.Size(), info.ModTime().UnixNano())
}

func FSFaults(on bool)                 {}
func EnvSymbolic(name string, max int) {}
func EnvFixed(name, val string)        {}
func EnvUnset(name string)             {}
func EnvPresent(name string)           {}
func CI(on bool)                       {}
func CISymbolic()                      {}
func Trimpath(on bool) {
	if on {
		out.Inapplicable = "-trimpath builds are not reproduced natively"
	}
}
func Shared(p any)                {}
func SharedGlobals(prefix string) {}

// FrameFile tags the calling frame with a source file name for the symbolic
// runtime.Caller stub. Natively the frames are real: harness helper functions
// live in non-test files of the package and the harness entry is called from
// the replay test file, which is exactly what the tags describe.
func FrameFile(name string) {}

// TestFileBase is the base name (without .go) of the test file the harness runs under.
func TestFileBase() string {
	for i := 1; i < 40; i++ {
		_, file, _, ok := runtime.Caller(i)
		if !ok {
			break
		}
		if strings.HasSuffix(file, "_test.go") {
			return strings.TrimSuffix(filepath.Base(file), ".go")
		}
	}
	return ""
}

// TestFileDir is the directory of the test file the harness runs under.
func TestFileDir() string {
	for i := 1; i < 40; i++ {
		_, file, _, ok := runtime.Caller(i)
		if !ok {
			break
		}
		if strings.HasSuffix(file, "_test.go") {
			return filepath.Dir(file)
		}
	}
	return ""
}
func Symbolic() bool { return false }

// Calibrate states an assumption of a white-box harness about an unexported function it calls
// directly (which parameter plays which role). If it does not hold on this tree the harness does
// not apply: the run is reported as inapplicable / inconclusive, never as a violation.
func Calibrate(ok bool, what string) {
	if !ok {
		out.Inapplicable = "harness calibration failed: " + what
		panic(stop{"calibration: " + what})
	}
}

// Stress reports whether this is a stress replay (a schedule counterexample being repeated).
func Stress() bool {
	v := os.Getenv("VX_STRESS")
	return v != "" && v != "0" && v != "1"
}

// Stagger (stress replays only) delays the calling goroutine by a random time of up to 10 ms, so
// that goroutines started together begin their work in a random order and at random distances.
func Stagger() {
	if v := os.Getenv("VX_STRESS"); v == "" || v == "0" || v == "1" {
		return
	}
	time.Sleep(time.Duration(rand.Intn(10000)) * time.Microsecond)
}

// Jitter (stress replays only) yields the processor a random number of times, so that repeated
// runs of a concurrent scenario meet in different interleavings.
func Jitter() {
	if v := os.Getenv("VX_STRESS"); v == "" || v == "0" || v == "1" {
		return
	}
	for k := rand.Intn(40); k > 0; k-- {
		runtime.Gosched()
	}
}
func Yield()           {}
func Preemptions() int { return 0 }

func Freeze(p any, what string) {
	v := reflect.ValueOf(p)
	if v.Kind() != reflect.Ptr || v.IsNil() {
		return
	}
	cp := reflect.New(v.Elem().Type()).Elem()
	cp.Set(v.Elem())
	frozen = append(frozen, frozenObj{what, v, cp})
	// a write that is undone before the harness ends is still a write: a watcher
	// polls the object for as long as the harness runs (a deliberately racy read)
	stopc := watchStop
	watchWG.Add(1)
	go func() {
		defer watchWG.Done()
		for {
			select {
			case <-stopc:
				return
			default:
			}
			if !reflect.DeepEqual(v.Elem().Interface(), cp.Interface()) {
				watchHit.Store(true)
				return
			}
			runtime.Gosched()
		}
	}()
}

var (
	watchStop = make(chan struct{})
	watchWG   sync.WaitGroup
	watchHit  atomic.Bool
)

func stopWatchers() {
	close(watchStop)
	watchWG.Wait()
	watchStop = make(chan struct{})
	if watchHit.Swap(false) {
		out.Failures = append(out.Failures, "frozen-write")
	}
}

func Stdout() string {
	if stdoutF == nil {
		return ""
	}
	b, _ := os.ReadFile(stdoutF.Name())
	return string(b)
}

// Flag sets a command-line flag of the test binary for the duration of the
// harness (go-snaps reads test.run / test.count through package flag). The old
// value is restored by End: package testing re-reads -test.run and -test.count
// on every iteration of its run loop, so leaving them changed would make the
// binary run the package's whole own test suite afterwards.
func Flag(name, val string) {
	if f := flag.Lookup(name); f != nil {
		if _, saved := savedFlags[name]; !saved {
			savedFlags[name] = f.Value.String()
		}
		f.Value.Set(val)
	}
}

var savedFlags = map[string]string{}

// TestSources writes a parseable Go file with the given top-level functions.
func TestSources(path string, funcs ...string) {
	os.MkdirAll(filepath.Dir(path), 0o755)
	var sb strings.Builder
	sb.WriteString("package x\n")
	for _, f := range funcs {
		sb.WriteString("func " + f + "() {}\n")
	}
	os.WriteFile(path, []byte(sb.String()), 0o644)
}

func Eq(a, b string) bool    { return a == b }
func And(a, b bool) bool     { return a && b }
func Or(a, b bool) bool      { return a || b }
func Not(a bool) bool        { return !a }
func Implies(a, b bool) bool { return !a || b }

func YAMLAssume(valid bool) {}

// Chdir moves the process into a fresh temporary directory (the snapshot
// location must not depend on the working directory); End moves back.
func Chdir() {
	if oldWd == "" {
		oldWd, _ = os.Getwd()
	}
	// a working directory unrelated to the test file and several levels deep (a relative path
	// climbing out of a shallow directory is clamped at the root and may land on the right file
	// by accident)
	wd := filepath.Join(filepath.Dir(dir), "cwd", "some", "where", "deep", "down")
	os.MkdirAll(wd, 0o755)
	os.Chdir(wd)
}

var oldWd string
