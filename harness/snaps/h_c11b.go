//go:build verif || verif_replay

package snaps

// A second non-test source file for H_C11_nontest: the wrappers that stand for an exported
// Match* function and its internal twin live here, their caller lives in h_c11.go.

func vxH11bExported(c *Config, name string, standalone bool) (string, string) {
	return vxH11bInner(c, name, standalone)
}

func vxH11bInner(c *Config, name string, standalone bool) (string, string) {
	return snapshotPath(c, name, standalone)
}

// an assertion helper of the suite: the frame that sits next to go-snaps
func vxH11bHelper(c *Config, name string, standalone bool) (string, string) {
	return vxH11bExported(c, name, standalone)
}
