//go:build verif || verif_replay

package snaps

import (
	"github.com/gkampitakis/go-snaps/internal/vxrt"
)

// H_escape_roundtrip: unescapeEndChars(escapeEndChars(s)) == s (kernel probe).
func H_escape_roundtrip() {
	n := vxrt.Len("n", 0, vxrt.Param("n", 7))
	s := vxrt.Text("s", n)
	vxrt.Assert(unescapeEndChars(escapeEndChars(s)) == s, "escape-roundtrip")
}

// H_C01_snapshot: record one MatchSnapshot value, then replay it.
func H_C01_snapshot() {
	vxrt.CI(false)
	dir := vxrt.Dir()
	c := WithConfig(Dir(dir), Filename("f"))
	n := vxrt.Len("n", 0, vxrt.Param("n", 4))
	body := vxrt.Text("body", n)
	vxrt.Assume(noCRAtEOL(body))
	vxrt.Assume(plainText(body))

	t1 := newT("TestA")
	c.MatchSnapshot(t1, body)
	t1.end()
	vxrt.Assert(len(t1.errors) == 0, "C01:record-no-error")
	vxrt.Assert(len(t1.logs) == 1, "C01:record-logs-added")
	stamp := vxrt.FSStamp()
	before := dumpDir(dir)

	t2 := newT("TestA")
	c.MatchSnapshot(t2, body)
	t2.end()
	vxrt.Assert(len(t2.errors) == 0, "C01:replay-no-error")
	vxrt.Assert(len(t2.logs) == 0, "C01:replay-no-log")
	vxrt.Assert(vxrt.FSStamp() == stamp, "C01:replay-no-write")
	vxrt.Assert(vxrt.Eq(dumpDir(dir), before), "C01:replay-dir-unchanged")
}

// jsonTemplate builds a small JSON document with symbolic leaves:
// 0: {"k":"<s>"}   1: ["<s>",<digit>]   2: {"b":<digit>,"a":"<s>"}
func jsonTemplate(label string, n int) string {
	s := vxrt.Text(label, vxrt.Len(label+"-len", 0, n))
	// string content: printable ASCII without quote and backslash
	for i := 0; i < len(s); i++ {
		vxrt.Assume(vxrt.And(vxrt.And(s[i] >= 0x20, s[i] < 0x7f), vxrt.And(s[i] != '"', s[i] != '\\')))
	}
	switch vxrt.Choice(label+"-shape", 3) {
	case 0:
		return `{"k":"` + s + `"}`
	case 1:
		d := vxrt.Text(label+"-digit", 1)
		vxrt.Assume(vxrt.And(d[0] >= '0', d[0] <= '9'))
		return `["` + s + `",` + d + `]`
	default:
		d := vxrt.Text(label+"-digit", 1)
		vxrt.Assume(vxrt.And(d[0] >= '0', d[0] <= '9'))
		return `{"b":` + d + `,"a":"` + s + `"}`
	}
}

// H_C01_json: record one MatchJSON document, then replay it.
func H_C01_json() {
	vxrt.CI(false)
	dir := vxrt.Dir()
	c := WithConfig(Dir(dir), Filename("f"))
	doc := jsonTemplate("doc", vxrt.Param("n", 2))

	t1 := newT("TestA")
	c.MatchJSON(t1, doc)
	t1.end()
	vxrt.Assert(len(t1.errors) == 0, "C01:record-no-error")
	vxrt.Assert(len(t1.logs) == 1, "C01:record-logs-added")
	stamp := vxrt.FSStamp()
	before := dumpDir(dir)

	t2 := newT("TestA")
	c.MatchJSON(t2, doc)
	t2.end()
	vxrt.Assert(len(t2.errors) == 0, "C01:replay-no-error")
	vxrt.Assert(len(t2.logs) == 0, "C01:replay-no-log")
	vxrt.Assert(vxrt.FSStamp() == stamp, "C01:replay-no-write")
	vxrt.Assert(vxrt.Eq(dumpDir(dir), before), "C01:replay-dir-unchanged")
}
