//go:build verif || verif_replay

package snaps

import (
	"github.com/gkampitakis/go-snaps/internal/vxrt"
)

// H_escape_roundtrip: unescapeEndChars(escapeEndChars(s)) == s (kernel probe).
func H_escape_roundtrip() {
	n := vxrt.Len("n", 0, vxrt.Param("n", 7))
	s := vxrt.Text("s", n)
	vxrt.Assert(unescapeEndChars(escapeEndChars(s)) == s, "escape-roundtrip")
}

// H_C01_snapshot: record one MatchSnapshot value, then replay it.
func H_C01_snapshot() {
	vxrt.CI(false)
	dir := vxrt.Dir()
	c := WithConfig(Dir(dir), Filename("f"))
	n := vxrt.Len("n", 0, vxrt.Param("n", 4))
	body := vxrt.Text("body", n)
	vxrt.Assume(vxNoCRAtEOL(body))
	vxrt.Assume(vxPlainText(body))

	t1 := vxNewT("TestA")
	c.MatchSnapshot(t1, body)
	t1.end()
	vxrt.Assert(len(t1.errors) == 0, "C01:record-no-error")
	vxrt.Assert(len(t1.logs) == 1, "C01:record-logs-added")
	stamp := vxrt.FSStamp()
	before := vxDumpDir(dir)

	t2 := vxNewT("TestA")
	c.MatchSnapshot(t2, body)
	t2.end()
	vxrt.Assert(len(t2.errors) == 0, "C01:replay-no-error")
	vxrt.Assert(len(t2.logs) == 0, "C01:replay-no-log")
	vxrt.Assert(vxrt.FSStamp() == stamp, "C01:replay-no-write")
	vxrt.Assert(vxrt.Eq(vxDumpDir(dir), before), "C01:replay-dir-unchanged")
}

// H_C01_json: record one MatchJSON document, then replay it.
func H_C01_json() {
	vxrt.CI(false)
	dir := vxrt.Dir()
	c := WithConfig(Dir(dir), Filename("f"))
	doc := vxJsonTemplate("doc", vxrt.Param("n", 2))

	t1 := vxNewT("TestA")
	c.MatchJSON(t1, doc)
	t1.end()
	vxrt.Assert(len(t1.errors) == 0, "C01:record-no-error")
	vxrt.Assert(len(t1.logs) == 1, "C01:record-logs-added")
	stamp := vxrt.FSStamp()
	before := vxDumpDir(dir)

	t2 := vxNewT("TestA")
	c.MatchJSON(t2, doc)
	t2.end()
	vxrt.Assert(len(t2.errors) == 0, "C01:replay-no-error")
	vxrt.Assert(len(t2.logs) == 0, "C01:replay-no-log")
	vxrt.Assert(vxrt.FSStamp() == stamp, "C01:replay-no-write")
	vxrt.Assert(vxrt.Eq(vxDumpDir(dir), before), "C01:replay-dir-unchanged")
}

// H_C01_mixed: a file with an optional pre-existing third-party entry; two
// tests (one a prefix/sub-test of the other) make 1..2 and 0..1 calls of
// arbitrary kinds (MatchSnapshot / MatchYAML / MatchJSON); record, then replay.
func H_C01_mixed() {
	vxrt.CI(false)
	vxrt.YAMLAssume(true)
	dir := vxrt.Dir()
	c := WithConfig(Dir(dir), Filename("f"))
	n := vxrt.Param("n", 3)
	ascii := vxrt.Param("ascii", 1) == 1
	if vxrt.Bool("pre-existing-entry") {
		body := vxSymText("pre", vxrt.Param("m", 2), ascii)
		vxrt.Assume(vxNoTerminatorLine(body))
		vxWriteFile(dir+"/f.snap", vxFrame("TestZ - 1", body))
	}
	names := []string{"TestA", []string{"TestA/b", "TestAB"}[vxrt.Choice("second-name", 2)]}
	ncalls := []int{vxrt.Len("calls-1", 1, 2), vxrt.Len("calls-2", 0, 1)}
	type call struct {
		kind int
		text string
	}
	var plan [2][]call
	for ti := 0; ti < 2; ti++ {
		for k := 0; k < ncalls[ti]; k++ {
			kind := vxrt.Choice("kind", 3)
			var text string
			if kind == vxKindJSON {
				text = vxJsonTemplate("json", 1)
			} else {
				text = vxSymText("text", n, ascii)
			}
			plan[ti] = append(plan[ti], call{kind, text})
		}
	}
	run := func(record bool) {
		for ti := 0; ti < 2; ti++ {
			t := vxNewT(names[ti])
			for _, cl := range plan[ti] {
				vxDoCall(c, t, cl.kind, cl.text)
			}
			t.end()
			if record {
				vxrt.Assert(len(t.errors) == 0 && len(t.logs) == len(plan[ti]), "C01:record")
			} else {
				vxrt.Assert(len(t.errors) == 0, "C01:replay-no-error")
				vxrt.Assert(len(t.logs) == 0, "C01:replay-no-log")
			}
		}
	}
	run(true)
	stamp := vxrt.FSStamp()
	before := vxDumpDir(dir)
	run(false)
	vxrt.Assert(vxrt.FSStamp() == stamp, "C01:replay-no-write")
	vxrt.Assert(vxrt.Eq(vxDumpDir(dir), before), "C01:replay-dir-unchanged")
}

// H_C01_many: more than nine calls in one test ([T - 1] is a prefix of [T - 10]);
// the bodies of ordinals 1 and 10 are symbolic.
func H_C01_many() {
	vxrt.CI(false)
	dir := vxrt.Dir()
	c := WithConfig(Dir(dir), Filename("f"))
	n := vxrt.Param("n", 2)
	b1 := vxSymText("body-1", n, true)
	b10 := vxSymText("body-10", n, true)
	vals := make([]string, 11)
	for k := range vals {
		vals[k] = "v" + vxItoa(k)
	}
	vals[0], vals[9] = b1, b10
	for round := 0; round < 2; round++ {
		t := vxNewT("TestT")
		stamp := vxrt.FSStamp()
		for k := range vals {
			c.MatchSnapshot(t, vals[k])
		}
		t.end()
		if round == 0 {
			vxrt.Assert(len(t.errors) == 0 && len(t.logs) == 11, "C01:record")
		} else {
			vxrt.Assert(len(t.errors) == 0 && len(t.logs) == 0, "C01:replay-no-error")
			vxrt.Assert(vxrt.FSStamp() == stamp, "C01:replay-no-write")
		}
	}
}

// H_C01_longline: one line longer than bufio's default 64 KiB token limit
// (concrete filler, symbolic ends).
func H_C01_longline() {
	vxrt.CI(false)
	dir := vxrt.Dir()
	c := WithConfig(Dir(dir), Filename("f"))
	filler := make([]byte, vxrt.Param("len", 70000))
	for i := range filler {
		filler[i] = 'x'
	}
	head := vxSymText("head", 1, true)
	tail := vxSymText("tail", 1, true)
	val := head + string(filler) + tail
	for round := 0; round < 2; round++ {
		t := vxNewT("TestL")
		c.MatchSnapshot(t, val)
		t.end()
		if round == 0 {
			vxrt.Assert(len(t.errors) == 0 && len(t.logs) == 1, "C01:record")
		} else {
			vxrt.Assert(len(t.errors) == 0 && len(t.logs) == 0, "C01:replay-no-error")
		}
	}
}

// H_C01_shadow: test X stores a text one of whose lines looks like the header
// of test Y's first slot (part-concrete: "[TestY - ?]" with a symbolic digit),
// then Y makes its first call.
func H_C01_shadow() {
	vxrt.CI(false)
	dir := vxrt.Dir()
	c := WithConfig(Dir(dir), Filename("f"))
	d := vxrt.Text("digit", 1)
	vxrt.Assume(vxrt.And(d[0] >= '0', d[0] <= '9'))
	rest := vxSymText("rest", vxrt.Param("n", 2), true)
	xText := "[TestY - " + d + "]\n" + rest
	yText := vxSymText("y-value", 1, true)
	if vxrt.Param("known_K2", 1) == 1 {
		// known finding K2: a stored body has a whole line equal to the header of a slot addressed in the same file
		vxrt.Assume(vxrt.Not(vxHasLine(xText, "[TestY - 1]")))
	}
	for round := 0; round < 2; round++ {
		tx, ty := vxNewT("TestX"), vxNewT("TestY")
		c.MatchSnapshot(tx, xText)
		tx.end()
		c.MatchSnapshot(ty, yText)
		ty.end()
		if round == 0 {
			vxrt.Assert(len(tx.errors) == 0 && len(tx.logs) == 1, "C01:record")
			vxrt.Assert(len(ty.errors) == 0 && len(ty.logs) == 1, "C01:record-second-test")
		} else {
			vxrt.Assert(len(tx.errors)+len(ty.errors) == 0, "C01:replay-no-error")
			vxrt.Assert(len(tx.logs)+len(ty.logs) == 0, "C01:replay-no-log")
		}
	}
}

// H_C01_struct: line-structured values (see structText) through MatchSnapshot
// or MatchYAML, next to a pre-existing entry; record, then replay.
func H_C01_struct() {
	vxrt.CI(false)
	vxrt.YAMLAssume(true)
	dir := vxrt.Dir()
	c := WithConfig(Dir(dir), Filename("f"))
	val := vxStructText("value", vxrt.Param("lines", 3))
	kind := vxrt.Choice("kind", 2)
	vxWriteFile(dir+"/f.snap", vxFrame("TestZ - 1", "z"))
	for round := 0; round < 2; round++ {
		t := vxNewT("TestA")
		stamp := vxrt.FSStamp()
		vxDoCall(c, t, kind, val)
		t.end()
		if round == 0 {
			vxrt.Assert(len(t.errors) == 0 && len(t.logs) == 1, "C01:record")
		} else {
			vxrt.Assert(len(t.errors) == 0, "C01:replay-no-error")
			vxrt.Assert(len(t.logs) == 0, "C01:replay-no-log")
			vxrt.Assert(vxrt.FSStamp() == stamp, "C01:replay-no-write")
		}
	}
	got, _, err := vxRefPrev("[TestZ - 1]", dir+"/f.snap")
	vxrt.Assert(err == nil && got == "z", "C01:bystander-entry-intact")
}

// H_C01_twofiles: one test records into two snapshot files (two Configs) with the three
// keyed entry points, interleaved; the second and third execution replay every call.
func H_C01_twofiles() {
	vxrt.CI(false)
	vxrt.YAMLAssume(true)
	dir := vxrt.Dir()
	cf := WithConfig(Dir(dir), Filename("f"))
	cg := WithConfig(Dir(dir), Filename("g"))
	calls := vxrt.Len("calls", 2, vxrt.Param("calls", 4))
	which := make([]int, calls)
	api := make([]int, calls)
	for k := 0; k < calls; k++ {
		which[k] = vxrt.Choice("file", 2)
		api[k] = vxrt.Choice("api", 3)
	}
	for round := 0; round < 3; round++ {
		t := vxNewT("TestT")
		stamp := vxrt.FSStamp()
		for k := 0; k < calls; k++ {
			c := cf
			if which[k] == 1 {
				c = cg
			}
			val := `"v` + vxItoa(k) + `"`
			switch api[k] {
			case 0:
				c.MatchSnapshot(t, val)
			case 1:
				c.MatchJSON(t, val)
			default:
				c.MatchYAML(t, val)
			}
		}
		t.end()
		if round == 0 {
			vxrt.Assert(len(t.errors) == 0 && len(t.logs) == calls, "C01:record")
		} else {
			vxrt.Assert(len(t.errors) == 0 && len(t.logs) == 0, "C01:replay-no-error")
			vxrt.Assert(vxrt.FSStamp() == stamp, "C01:replay-no-write")
		}
	}
}

// H_C01_bigfile: a snapshot file that grows far beyond any reader buffer (40 entries of four
// 2 KB lines each, about 330 KB) is recorded by one test and replayed by the next execution:
// every call passes silently and nothing is written. One byte in every body is symbolic.
func H_C01_bigfile() {
	vxrt.CI(false)
	dir := vxrt.Dir()
	c := WithConfig(Dir(dir), Filename("f"))
	entries := vxrt.Param("entries", 40)
	lineLen := vxrt.Param("linelen", 2047)
	mark := vxrt.Text("mark", 1)
	vxrt.Assume(vxrt.And(mark[0] >= 'a', mark[0] <= 'z'))
	vals := make([]string, entries)
	for k := range vals {
		line := make([]byte, lineLen)
		for i := range line {
			line[i] = byte('A' + (k+i)%26)
		}
		l := string(line)
		vals[k] = "entry " + vxItoa(k) + " " + mark + "\n" + l + "\n" + l + "\n" + l + "\nend " + vxItoa(k)
	}
	for round := 0; round < 2; round++ {
		t := vxNewT("TestBig")
		stamp := vxrt.FSStamp()
		for k := range vals {
			c.MatchSnapshot(t, vals[k])
		}
		t.end()
		if round == 0 {
			vxrt.Assert(len(t.errors) == 0 && len(t.logs) == entries, "C01:record")
		} else {
			vxrt.Assert(len(t.errors) == 0 && len(t.logs) == 0, "C01:replay-no-error")
			vxrt.Assert(vxrt.FSStamp() == stamp, "C01:replay-no-write")
		}
	}
}

// H_C01_order: the entries of a test need not sit in call order in the file (an entry deleted by
// hand and recorded again lands at the end): with [T - 2] stored before [T - 1], and another
// test's entry in between, both calls replay silently and nothing is written.
func H_C01_order() {
	vxrt.CI(false)
	vxrt.YAMLAssume(true)
	dir := vxrt.Dir()
	path := dir + "/f.snap"
	var content string
	switch vxrt.Choice("order", 6) {
	case 4: // an editor removed the blank lines between entries and the final newline
		content = "[TestT - 1]\n\"one\"\n---\n[TestT - 2]\n\"two\"\n---"
	case 5: // more blank lines between the entries than the library writes itself
		content = "\n\n\n[TestT - 1]\n\"one\"\n---\n\n\n\n[TestT - 2]\n\"two\"\n---\n\n"
	case 3: // in call order, but with CRLF line endings (an autocrlf checkout)
		content = "\r\n[TestT - 1]\r\n\"one\"\r\n---\r\n\r\n[TestT - 2]\r\n\"two\"\r\n---\r\n"
	case 0:
		content = vxFrame("TestT - 2", `"two"`) + vxFrame("TestU - 1", `"u"`) + vxFrame("TestT - 1", `"one"`)
	case 1:
		content = vxFrame("TestT - 3", `"three"`) + vxFrame("TestT - 2", `"two"`) + vxFrame("TestT - 1", `"one"`)
	default:
		content = vxFrame("TestT - 1", `"one"`) + vxFrame("TestT - 3", `"three"`) + vxFrame("TestU - 1", `"u"`) + vxFrame("TestT - 2", `"two"`)
	}
	vxWriteFile(path, content)
	c := WithConfig(Dir(dir), Filename("f"))
	api := vxrt.Choice("api", 3)
	for round := 0; round < 2; round++ {
		t := vxNewT("TestT")
		stamp := vxrt.FSStamp()
		for _, v := range []string{`"one"`, `"two"`} {
			vxCallAPI(c, api, t, v)
		}
		t.end()
		vxrt.Assert(len(t.errors) == 0 && len(t.logs) == 0, "C01:replay-no-error")
		vxrt.Assert(vxrt.FSStamp() == stamp && vxReadFile(path) == content, "C01:replay-no-write")
	}
}

// H_C01_oneconfig: one Config with a Filename serves keyed and standalone calls of a test, in
// either order: what the first execution records, the second replays without failure, log or write.
func H_C01_oneconfig() {
	vxrt.CI(false)
	vxrt.YAMLAssume(true)
	dir := vxrt.Dir()
	c := WithConfig(Dir(dir), Filename("f"))
	order := vxrt.Choice("order", 3)
	keyed := vxrt.Choice("keyed-api", 3) // MatchSnapshot, MatchJSON, MatchYAML
	body := func(t *vxMockT) {
		switch order {
		case 0:
			vxCallAPI(c, keyed, t, `"k"`)
			c.MatchStandaloneSnapshot(t, "s")
		case 1:
			c.MatchStandaloneSnapshot(t, "s")
			vxCallAPI(c, keyed, t, `"k"`)
		default:
			c.MatchStandaloneJSON(t, `"j"`)
			vxCallAPI(c, keyed, t, `"k"`)
			c.MatchStandaloneSnapshot(t, "s")
		}
	}
	t1 := vxNewT("TestO")
	body(t1)
	t1.end()
	vxrt.Assert(len(t1.errors) == 0, "C01:record-no-error")
	stamp, before := vxrt.FSStamp(), vxDumpDir(dir)
	t2 := vxNewT("TestO")
	body(t2)
	t2.end()
	vxrt.Assert(len(t2.errors) == 0 && len(t2.logs) == 0, "C01:replay-no-error")
	vxrt.Assert(vxrt.FSStamp() == stamp && vxDumpDir(dir) == before, "C01:replay-no-write")
	names, _ := vxOsReadDirNames(dir)
	vxrt.Assert(len(names) == 2+order/2, "C11:nothing-else-created")
}
