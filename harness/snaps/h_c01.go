//go:build verif || verif_replay

package snaps

import (
	"github.com/gkampitakis/go-snaps/internal/vxrt"
)

// H_escape_roundtrip: unescapeEndChars(escapeEndChars(s)) == s (kernel probe).
func H_escape_roundtrip() {
	n := vxrt.Len("n", 0, vxrt.Param("n", 7))
	s := vxrt.Text("s", n)
	vxrt.Assert(unescapeEndChars(escapeEndChars(s)) == s, "escape-roundtrip")
}
