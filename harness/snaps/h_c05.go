//go:build verif || verif_replay

package snaps

import (
	"os"
	"strings"

	"github.com/gkampitakis/ciinfo"
	"github.com/gkampitakis/go-snaps/internal/vxrt"
)

// allowed is the mode table of the property, written once.
func vxAllowed(ci bool, opt int, env string) (create, rewrite, clean bool) {
	if ci {
		return false, false, false
	}
	clean = env == "true" || env == "clean"
	switch opt {
	case 1: // Update(true)
		return true, true, clean
	case 2: // Update(false)
		return false, false, clean
	}
	return true, env == "true", clean
}

// H_C05_match: whether a Match* call may create or rewrite is decided solely
// by (CI, Update option, UPDATE_SNAPS), for all five entry points and the
// three entry states.
func H_C05_match() {
	vxrt.CISymbolic()
	vxrt.YAMLAssume(true)
	vxrt.EnvSymbolic("UPDATE_SNAPS", vxrt.Param("envlen", 5))
	dir := vxrt.Dir()
	opt := vxrt.Choice("update-option", 3)
	api := vxrt.Choice("api", 5)
	state := vxrt.Choice("entry-state", 3) // 0 missing, 1 equal, 2 different
	if state == 0 && vxrt.Bool("snapshot-directory-does-not-exist-yet") {
		// the first snapshot of a package: creating the (nested) directory is creating something
		dir += "/new/nested"
	}
	c := vxCfgWithOpt(dir, opt)
	stored := `"s"`
	recv := stored
	if state == 2 {
		recv = `"r"`
	}
	t := vxNewT("TestM")
	call := func(t *vxMockT, v string) {
		switch api {
		case 0:
			c.MatchSnapshot(t, v)
		case 1:
			c.MatchJSON(t, v)
		case 2:
			c.MatchYAML(t, v)
		case 3:
			c.MatchStandaloneSnapshot(t, v)
		default:
			c.MatchStandaloneJSON(t, v)
		}
	}
	if state != 0 {
		// create the entry under a permissive config, then look at the mode under test
		perm := WithConfig(Dir(dir), Filename("f"), Update(true))
		switch api {
		case 0:
			vxWriteFile(dir+"/f.snap", vxFrame("TestM - 1", stored))
		case 1:
			vxWriteFile(dir+"/f.snap", vxFrame("TestM - 1", stored))
		case 2:
			vxWriteFile(dir+"/f.snap", vxFrame("TestM - 1", stored))
		case 3:
			vxWriteFile(dir+"/f_1.snap", stored)
		default:
			vxWriteFile(dir+"/f_1.snap.json", stored)
		}
		_ = perm
	}
	ci := ciinfo.IsCI
	env := os.Getenv("UPDATE_SNAPS")
	create, rewrite, _ := vxAllowed(ci, opt, env)
	stamp := vxrt.FSStamp()
	before := vxDumpDir(dir)
	call(t, recv)
	t.end()
	wrote := vxrt.FSStamp() != stamp
	switch state {
	case 0:
		vxrt.Reach("missing")
		if create {
			vxrt.Assert(len(t.errors) == 0 && len(t.logs) == 1 && wrote, "C05:missing-created-when-allowed")
		} else {
			vxrt.Assert(len(t.errors) == 1 && len(t.logs) == 0, "C05:missing-fails-when-creation-forbidden")
			vxrt.Assert(!wrote && vxrt.Eq(vxDumpDir(dir), before), "C05:no-write-when-creation-forbidden")
		}
	case 1:
		vxrt.Reach("equal")
		vxrt.Assert(len(t.errors) == 0 && len(t.logs) == 0 && !wrote, "C05:equal-passes-silently")
	default:
		vxrt.Reach("different")
		if rewrite {
			vxrt.Assert(len(t.errors) == 0 && len(t.logs) == 1 && wrote, "C05:mismatch-rewritten-when-allowed")
		} else {
			vxrt.Assert(len(t.errors) == 1 && len(t.logs) == 0, "C05:mismatch-fails-when-update-forbidden")
			vxrt.Assert(!wrote && vxrt.Eq(vxDumpDir(dir), before), "C05:no-write-when-update-forbidden")
		}
	}
}

// H_C05_readonly: a read-only mode (CI, Update(false), or no permission from the environment)
// stays read-only whatever the file looks like: a snapshot file with CRLF line endings (an
// autocrlf checkout) is only read by a passing or a failing call of any keyed entry point.
func H_C05_readonly() {
	vxrt.CISymbolic()
	vxrt.YAMLAssume(true)
	vxrt.EnvFixed("NO_COLOR", "1")
	vxrt.EnvFixed("UPDATE_SNAPS", "")
	dir := vxrt.Dir()
	path := dir + "/f.snap"
	eol := []string{"\n", "\r\n"}[vxrt.Choice("line-endings", 2)]
	vxWriteFile(path, eol+"[TestM - 1]"+eol+`"v"`+eol+"---"+eol+eol+"[TestZ - 1]"+eol+"z"+eol+"---"+eol)
	before := vxReadFile(path)
	var c *Config
	if vxrt.Bool("update-false") {
		c = WithConfig(Dir(dir), Filename("f"), Update(false))
	} else {
		c = WithConfig(Dir(dir), Filename("f"))
	}
	recv := []string{`"v"`, `"w"`}[vxrt.Choice("received", 2)]
	stamp := vxrt.FSStamp()
	t := vxNewT("TestM")
	switch vxrt.Choice("api", 3) {
	case 0:
		c.MatchSnapshot(t, recv)
	case 1:
		c.MatchJSON(t, recv)
	default:
		c.MatchYAML(t, recv)
	}
	t.end()
	vxrt.Assert(vxrt.FSStamp() == stamp && vxReadFile(path) == before, "C05:no-write-without-permission")
	if recv == `"w"` {
		vxrt.Assert(len(t.errors) == 1, "C05:mismatch-fails-when-update-forbidden")
	}
}

// H_C05_run: under a -run filter Clean still only reports outside clean mode: an obsolete snapshot
// file whose test source declares a selected test (so nothing exempts it) is listed and kept; in
// clean mode off CI it is removed.
func H_C05_run() {
	vxrt.CISymbolic()
	vxrt.EnvFixed("NO_COLOR", "1")
	vxrt.EnvSymbolic("UPDATE_SNAPS", 5)
	vxrt.Flag("test.count", "1")
	vxrt.Flag("test.run", "TestA")
	dir := vxrt.Dir() + "/__snapshots__"
	vxWriteFile(dir+"/f_test.snap", vxFrame("TestA - 1", "a"))
	vxrt.TestSources(vxrt.Dir()+"/f_test.go", "TestA", "TestB")
	vxWriteFile(dir+"/old_test.snap", vxFrame("TestAOld - 1", "stale"))
	vxrt.TestSources(vxrt.Dir()+"/old_test.go", "TestAOld")
	c := WithConfig(Dir(dir), Filename("f_test"), Update(false))
	t := vxNewT("TestA")
	c.MatchSnapshot(t, "a")
	t.end()
	vxrt.Assert(len(t.errors) == 0, "setup:passes")
	ci, env := ciinfo.IsCI, os.Getenv("UPDATE_SNAPS")
	cleanMode := !ci && (env == "true" || env == "clean")
	Clean(nil)
	gone := vxReadFile(dir+"/old_test.snap") == "<missing>"
	vxrt.Assert(gone == cleanMode, "C05:clean-deletes-only-in-clean-mode")
}

// H_C05_emptydir: a call that may not create its snapshot leaves an existing, empty snapshot
// directory behind; Clean afterwards has nothing to report there and, whatever the mode, deletes
// nothing - in particular not the directory.
func H_C05_emptydir() {
	vxrt.CISymbolic()
	vxrt.EnvFixed("NO_COLOR", "1")
	vxrt.EnvSymbolic("UPDATE_SNAPS", 5)
	vxrt.Flag("test.count", "1")
	vxrt.Flag("test.run", "")
	dir := vxrt.Dir() + "/__snapshots__"
	vxOs_MkdirAll(dir)
	c := WithConfig(Dir(dir), Filename("f_test"), Update(false))
	t := vxNewT("TestA")
	c.MatchSnapshot(t, "a")
	t.end()
	vxrt.Assert(len(t.errors) == 1, "C05:missing-fails-when-creation-forbidden")
	stamp := vxrt.FSStamp()
	opts := CleanOpts{Sort: vxrt.Bool("sort")}
	Clean(nil, opts)
	vxrt.Assert(vxrt.FSStamp() == stamp, "C05:clean-leaves-empty-directory-alone")
}

// H_C05_nearmiss: values of UPDATE_SNAPS that merely resemble `true` and `clean` (other case,
// surrounding blanks, other words for yes) give no permission: a mismatch fails and rewrites
// nothing, and Clean reports the stale items and removes nothing.
func H_C05_nearmiss() {
	vxrt.CI(false)
	vxrt.EnvFixed("NO_COLOR", "1")
	env := []string{"Clean", "clean ", " clean", "CLEAN", "TRUE", "True", "true ", "1", "yes", "cleanup"}[vxrt.Choice("UPDATE_SNAPS", 10)]
	vxrt.EnvFixed("UPDATE_SNAPS", env)
	vxrt.Flag("test.run", "")
	vxrt.Flag("test.count", "1")
	dir := vxrt.Dir() + "/__snapshots__"
	content := vxFrame("TestA - 1", "a") + vxFrame("TestA - 2", "stale entry")
	vxWriteFile(dir+"/f_test.snap", content)
	vxWriteFile(dir+"/old_test.snap", vxFrame("TestOld - 1", "stale file"))
	vxrt.TestSources(vxrt.Dir()+"/f_test.go", "TestA")
	vxrt.TestSources(vxrt.Dir()+"/old_test.go", "TestOld")
	c := WithConfig(Dir(dir), Filename("f_test"))
	t := vxNewT("TestA")
	c.MatchSnapshot(t, "another value")
	t.end()
	vxrt.Assert(len(t.errors) == 1 && len(t.logs) == 0, "C05:mismatch-fails-when-update-forbidden")
	stamp := vxrt.FSStamp()
	Clean(nil)
	out := vxrt.Stdout()
	vxrt.Assert(vxrt.FSStamp() == stamp && vxReadFile(dir+"/f_test.snap") == content, "C05:clean-deletes-only-in-clean-mode")
	vxrt.Assert(strings.Contains(out, vxBullet+"TestA - 2\n") && strings.Contains(out, "old_test.snap\n"), "C09:stale-entry-reported")
}
