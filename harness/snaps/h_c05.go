//go:build verif || verif_replay

package snaps

import (
	"os"

	"github.com/gkampitakis/ciinfo"
	"github.com/gkampitakis/go-snaps/internal/vxrt"
)

// allowed is the mode table of the property, written once.
func allowed(ci bool, opt int, env string) (create, rewrite, clean bool) {
	if ci {
		return false, false, false
	}
	clean = env == "true" || env == "clean"
	switch opt {
	case 1: // Update(true)
		return true, true, clean
	case 2: // Update(false)
		return false, false, clean
	}
	return true, env == "true", clean
}

// H_C05_match: whether a Match* call may create or rewrite is decided solely
// by (CI, Update option, UPDATE_SNAPS), for all five entry points and the
// three entry states.
func H_C05_match() {
	vxrt.CISymbolic()
	vxrt.YAMLAssume(true)
	vxrt.EnvSymbolic("UPDATE_SNAPS", vxrt.Param("envlen", 5))
	dir := vxrt.Dir()
	opt := vxrt.Choice("update-option", 3)
	api := vxrt.Choice("api", 5)
	state := vxrt.Choice("entry-state", 3) // 0 missing, 1 equal, 2 different
	c := cfgWithOpt(dir, opt)
	stored := `"s"`
	recv := stored
	if state == 2 {
		recv = `"r"`
	}
	t := newT("TestM")
	call := func(t *mockT, v string) {
		switch api {
		case 0:
			c.MatchSnapshot(t, v)
		case 1:
			c.MatchJSON(t, v)
		case 2:
			c.MatchYAML(t, v)
		case 3:
			c.MatchStandaloneSnapshot(t, v)
		default:
			c.MatchStandaloneJSON(t, v)
		}
	}
	if state != 0 {
		// create the entry under a permissive config, then look at the mode under test
		perm := WithConfig(Dir(dir), Filename("f"), Update(true))
		switch api {
		case 0:
			writeFile(dir+"/f.snap", frame("TestM - 1", stored))
		case 1:
			writeFile(dir+"/f.snap", frame("TestM - 1", stored))
		case 2:
			writeFile(dir+"/f.snap", frame("TestM - 1", stored))
		case 3:
			writeFile(dir+"/f_1.snap", stored)
		default:
			writeFile(dir+"/f_1.snap.json", stored)
		}
		_ = perm
	}
	ci := ciinfo.IsCI
	env := os.Getenv("UPDATE_SNAPS")
	create, rewrite, _ := allowed(ci, opt, env)
	stamp := vxrt.FSStamp()
	before := dumpDir(dir)
	call(t, recv)
	t.end()
	wrote := vxrt.FSStamp() != stamp
	switch state {
	case 0:
		vxrt.Reach("missing")
		if create {
			vxrt.Assert(len(t.errors) == 0 && len(t.logs) == 1 && wrote, "C05:missing-created-when-allowed")
		} else {
			vxrt.Assert(len(t.errors) == 1 && len(t.logs) == 0, "C05:missing-fails-when-creation-forbidden")
			vxrt.Assert(!wrote && vxrt.Eq(dumpDir(dir), before), "C05:no-write-when-creation-forbidden")
		}
	case 1:
		vxrt.Reach("equal")
		vxrt.Assert(len(t.errors) == 0 && len(t.logs) == 0 && !wrote, "C05:equal-passes-silently")
	default:
		vxrt.Reach("different")
		if rewrite {
			vxrt.Assert(len(t.errors) == 0 && len(t.logs) == 1 && wrote, "C05:mismatch-rewritten-when-allowed")
		} else {
			vxrt.Assert(len(t.errors) == 1 && len(t.logs) == 0, "C05:mismatch-fails-when-update-forbidden")
			vxrt.Assert(!wrote && vxrt.Eq(dumpDir(dir), before), "C05:no-write-when-update-forbidden")
		}
	}
}
