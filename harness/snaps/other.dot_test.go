//go:build verif_replay

package snaps

// A second test file of the package for the native twin (see h11ViaOther).
func init() {
	vxViaOtherTestFile = func(f func()) { f() }
	vxOtherTestFileBase = "zz_other.dot_test"
}
