//go:build verif_replay

package snaps

// A second test file of the package for the native twin (see h11ViaOther).
func init() {
	viaOtherTestFile = func(f func()) { f() }
	otherTestFileBase = "zz_other.dot_test"
}
