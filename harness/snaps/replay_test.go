//go:build verif_replay

package snaps

import (
	"encoding/json"
	"os"
	"strconv"
	"testing"

	"github.com/gkampitakis/go-snaps/internal/vxrt"
	"github.com/goccy/go-yaml"
)

// TestVXReplay runs one harness natively on the inputs of a replay file.
func TestVXReplay(t *testing.T) {
	file := os.Getenv("VX_REPLAY")
	if file == "" {
		t.Skip("no replay file")
	}
	fn, ok := vxHarnesses[os.Getenv("VX_HARNESS")]
	if !ok {
		t.Fatalf("unknown harness %q", os.Getenv("VX_HARNESS"))
	}
	// schedule-dependent counterexamples cannot be forced natively: the scenario is
	// repeated with real goroutines until the violation shows (or the budget ends)
	stress, _ := strconv.Atoi(os.Getenv("VX_STRESS"))
	if stress < 1 {
		stress = 1
	}
	vxrt.TestingT = t
	var o vxrt.Outcome
	inapplicable := vxCheckOracles(file)
	for it := 0; it < stress; it++ {
		if err := vxrt.Begin(file); err != nil {
			t.Fatal(err)
		}
		vxrt.Run(fn)
		o = vxrt.End()
		o.Iterations = it + 1
		if len(o.Failures) > 0 || o.Mismatch != "" || o.AssumeFailed {
			break
		}
	}
	if inapplicable != "" && o.Inapplicable == "" {
		o.Inapplicable = inapplicable
	}
	b, _ := json.Marshal(o)
	if err := os.WriteFile(os.Getenv("VX_OUT"), b, 0o644); err != nil {
		t.Fatal(err)
	}
}

// checkOracles verifies that the environment answers the solver chose can be
// realised by the real libraries (e.g. that a document the model calls valid
// YAML really is).
func vxCheckOracles(file string) string {
	b, _ := os.ReadFile(file)
	var rp vxrt.Replay
	json.Unmarshal(b, &rp)
	for _, in := range rp.Inputs {
		if in.Kind == "yamlvalid" && len(in.Vals) > 0 {
			doc := make([]byte, 0, len(in.Vals))
			for _, v := range in.Vals[1:] {
				doc = append(doc, byte(v))
			}
			var out interface{}
			valid := yaml.Unmarshal(doc, &out) == nil
			if valid != (in.Vals[0] != 0) {
				return "the YAML-validity answer chosen by the solver is not what goccy/go-yaml says for this document"
			}
		}
		if in.Kind == "yamlfits" && len(in.Vals) > 0 {
			// does this (valid) document decode into the named Go type?
			doc := make([]byte, 0, len(in.Vals))
			for _, v := range in.Vals[1:] {
				doc = append(doc, byte(v))
			}
			var err error
			switch in.Label {
			case "map[string]interface{}", "map[string]interface {}", "map[string]any":
				var out map[string]interface{}
				err = yaml.Unmarshal(doc, &out)
			case "map[interface{}]interface{}", "map[interface {}]interface {}", "map[any]any":
				var out map[interface{}]interface{}
				err = yaml.Unmarshal(doc, &out)
			case "[]interface{}", "[]interface {}", "[]any":
				var out []interface{}
				err = yaml.Unmarshal(doc, &out)
			case "string":
				var out string
				err = yaml.Unmarshal(doc, &out)
			default:
				return "decoding YAML into " + in.Label + " cannot be checked against the library by the replay"
			}
			if (err == nil) != (in.Vals[0] != 0) {
				return "the answer chosen by the solver for decoding this YAML document into " + in.Label + " is not what goccy/go-yaml says"
			}
		}
	}
	return ""
}
