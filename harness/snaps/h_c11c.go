//go:build verif || verif_replay

package snaps

// A helper that, as far as the runtime can tell, lives in <module>/internal/testing/testing.go:
// a suite's own assertion helpers may well sit in a package called testing. It is an ordinary
// non-test source file between the test function and the call.
//
//line /vx/module/internal/testing/testing.go:10
func vxH11cHelper(c *Config, name string, standalone bool) (string, string) {
	return vxH11bHelper(c, name, standalone)
}
