//go:build verif || verif_replay

package snaps

import (
	"strings"

	"github.com/gkampitakis/go-snaps/internal/vxrt"
)

// White-box harnesses call a few unexported functions directly. A refactoring may permute
// parameters of the same type without breaking the build; the harness would then misuse the
// function and report nonsense. Each such harness first states, on a tiny concrete scenario, which
// parameter plays which role (vxrt.Calibrate): if that does not hold the harness does not apply
// to this tree (inconclusive), it is not a violation. The scenarios only tell the roles apart;
// they do not judge correctness (that is the harness's business).

func calibrateExamineSnaps() {
	dir := vxrt.Dir() + "/calibrate"
	p := dir + "/k.snap"
	content := frame("TestK - 1", "a") + frame("TestOld - 1", "s")
	reg := map[string]map[string]int{p: {"TestK": 1}}
	writeFile(p, content)
	_, err1 := examineSnaps(reg, []string{p}, "", 1, true, false) // "update": the stale entry goes
	_, _, gone := refPrev("[TestOld - 1]", p)
	writeFile(p, content)
	_, err2 := examineSnaps(reg, []string{p}, "", 1, false, true) // "sort" alone: it stays
	_, _, kept := refPrev("[TestOld - 1]", p)
	removeFile(p)
	removeFile(dir)
	vxrt.Calibrate(err1 == nil && err2 == nil && gone != nil && kept == nil, "examineSnaps(registry, files, runOnly, count, update, sort)")
}

func calibrateSummary() {
	s := summary([]string{"only-a-file"}, nil, 0, map[uint8]int{}, false)
	vxrt.Calibrate(strings.Contains(s, "1 snapshot file obsolete") && strings.Contains(s, "only-a-file"), "summary(obsoleteFiles, obsoleteTests, skipped, events, removed)")
}

func calibratePrettyDiff() {
	rep := prettyDiff("kept\ngone\n", "kept\n", "", 1)
	vxrt.Calibrate(strings.Contains(rep, "Snapshot - 1") && strings.Contains(rep, "Received + 0"), "prettyDiff(expected, received, path, line)")
}

func calibrateStorage() {
	dir := vxrt.Dir() + "/calibrate"
	p := dir + "/k.snap"
	err1 := addNewSnapshot("[TestK - 1]", "kbody", p)
	added := readFile(p) == frame("TestK - 1", "kbody")
	err2 := updateSnapshot("[TestK - 1]", "nbody", p)
	updated := readFile(p) == frame("TestK - 1", "nbody")
	removeFile(p)
	removeFile(dir)
	vxrt.Calibrate(err1 == nil && err2 == nil && added && updated, "addNewSnapshot/updateSnapshot(testID, snapshot, snapPath)")
}

func calibrateSnapshotPath() {
	abs, _ := snapshotPath(WithConfig(Dir("/abs/q"), Filename("k")), "TestK", false)
	vxrt.Calibrate(abs == "/abs/q/k.snap", "snapshotPath(config, testName, standalone) (absolute, relative)")
}
