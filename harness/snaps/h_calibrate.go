//go:build verif || verif_replay

package snaps

import (
	"strings"

	"github.com/gkampitakis/go-snaps/internal/vxrt"
)

// White-box harnesses call a few unexported functions directly. A refactoring may permute
// parameters of the same type without breaking the build; the harness would then misuse the
// function and report nonsense. Each such harness first states, on a tiny concrete scenario, which
// parameter plays which role (vxrt.Calibrate): if that does not hold the harness does not apply
// to this tree (inconclusive), it is not a violation. The scenarios only tell the roles apart;
// they do not judge correctness (that is the harness's business).

func vxCalibrateExamineSnaps() {
	dir := vxrt.Dir() + "/calibrate"
	p := dir + "/k.snap"
	content := vxFrame("TestK - 1", "a") + vxFrame("TestOld - 1", "s")
	reg := map[string]map[string]int{p: {"TestK": 1}}
	vxWriteFile(p, content)
	_, err1 := examineSnaps(reg, []string{p}, "", 1, true, false) // "update": the stale entry goes
	_, _, gone := vxRefPrev("[TestOld - 1]", p)
	vxWriteFile(p, content)
	_, err2 := examineSnaps(reg, []string{p}, "", 1, false, true) // "sort" alone: it stays
	_, _, kept := vxRefPrev("[TestOld - 1]", p)
	vxRemoveFile(p)
	vxRemoveFile(dir)
	vxrt.Calibrate(err1 == nil && err2 == nil && gone != nil && kept == nil, "examineSnaps(registry, files, runOnly, count, update, sort)")
}

func vxCalibrateSummary() {
	s := summary([]string{"only-a-file"}, nil, 0, map[uint8]int{}, false)
	vxrt.Calibrate(strings.Contains(s, "1 snapshot file obsolete") && strings.Contains(s, "only-a-file"), "summary(obsoleteFiles, obsoleteTests, skipped, events, removed)")
}

func vxCalibratePrettyDiff() {
	rep := prettyDiff("kept\ngone\n", "kept\n", "", 1)
	vxrt.Calibrate(strings.Contains(rep, "Snapshot - 1") && strings.Contains(rep, "Received + 0"), "prettyDiff(expected, received, path, line)")
}

func vxCalibrateStorage() {
	dir := vxrt.Dir() + "/calibrate"
	p := dir + "/k.snap"
	err1 := addNewSnapshot("[TestK - 1]", "kbody", p)
	added := vxReadFile(p) == vxFrame("TestK - 1", "kbody")
	err2 := updateSnapshot("[TestK - 1]", "nbody", p)
	updated := vxReadFile(p) == vxFrame("TestK - 1", "nbody")
	vxRemoveFile(p)
	vxRemoveFile(dir)
	vxrt.Calibrate(err1 == nil && err2 == nil && added && updated, "addNewSnapshot/updateSnapshot(testID, snapshot, snapPath)")
}

func vxCalibrateSnapshotPath() {
	abs, _ := snapshotPath(WithConfig(Dir("/abs/q"), Filename("k")), "TestK", false)
	vxrt.Calibrate(abs == "/abs/q/k.snap", "snapshotPath(config, testName, standalone) (absolute, relative)")
}
