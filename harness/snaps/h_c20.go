//go:build verif || verif_replay

package snaps

import (
	"strings"
	"sync"

	"github.com/gkampitakis/go-snaps/internal/vxrt"
)

// H_C20_outcome: one call from an arbitrary mode and entry state (file-system
// faults on) ends in exactly one of passed / added / updated / failed,
// signalled as nothing / one log / one log / exactly one error, and bumps
// exactly the matching counter.
func H_C20_outcome() {
	vxrt.CISymbolic()
	vxrt.YAMLAssume(true)
	vxrt.EnvSymbolic("UPDATE_SNAPS", 4)
	dir := vxrt.Dir()
	opt := vxrt.Choice("update-option", 3)
	api := vxrt.Choice("api", 5)
	state := vxrt.Choice("entry-state", 3)
	c := vxCfgWithOpt(dir, opt)
	stored, recv := `"s"`, `"s"`
	if state == 2 {
		recv = `"r"`
	}
	if state != 0 {
		if api < 3 {
			vxWriteFile(dir+"/f.snap", vxFrame("TestM - 1", stored))
		} else if api == 3 {
			vxWriteFile(dir+"/f_1.snap", stored)
		} else {
			vxWriteFile(dir+"/f_1.snap.json", stored)
		}
	}
	name := "TestM"
	if state == 0 && vxrt.Bool("file-name-longer-than-NAME_MAX") {
		// a snapshot file name of more than 255 bytes: creating it fails
		// (a real, reproducible file-system error)
		long := make([]byte, 260)
		for i := range long {
			long[i] = 'n'
		}
		c = vxCfgWithOptName(dir, opt, string(long))
	}
	vxForceInit()
	pre := [4]int{testEvents.items[erred], testEvents.items[added], testEvents.items[updated], testEvents.items[passed]}
	vxrt.FSFaults(vxrt.Param("faults", 1) == 1)
	t := vxNewT(name)
	switch api {
	case 0:
		c.MatchSnapshot(t, recv)
	case 1:
		c.MatchJSON(t, recv)
	case 2:
		c.MatchYAML(t, recv)
	case 3:
		c.MatchStandaloneSnapshot(t, recv)
	default:
		c.MatchStandaloneJSON(t, recv)
	}
	vxrt.FSFaults(false)
	t.end()
	d := [4]int{testEvents.items[erred] - pre[0], testEvents.items[added] - pre[1], testEvents.items[updated] - pre[2], testEvents.items[passed] - pre[3]}
	total := d[0] + d[1] + d[2] + d[3]
	vxrt.Assert(total == 1, "C20:exactly-one-counter-bumped")
	switch {
	case d[0] == 1:
		vxrt.Reach("failed")
		vxrt.Assert(len(t.errors) == 1 && len(t.logs) == 0, "C20:failed-is-exactly-one-error")
	case d[1] == 1:
		vxrt.Reach("added")
		vxrt.Assert(len(t.errors) == 0 && len(t.logs) == 1 && vxIsLog(t.logs[0], "Snapshot added"), "C20:added-is-one-added-log")
	case d[2] == 1:
		vxrt.Reach("updated")
		vxrt.Assert(len(t.errors) == 0 && len(t.logs) == 1 && vxIsLog(t.logs[0], "Snapshot updated"), "C20:updated-is-one-updated-log")
	case d[3] == 1:
		vxrt.Reach("passed")
		vxrt.Assert(len(t.errors) == 0 && len(t.logs) == 0, "C20:passed-is-silent")
	}
}

// H_C20_summary: the Snapshot Summary shows exactly the counters (a line is
// absent iff its counter is 0), the skip count and the obsolete lists.
func H_C20_summary() {
	vxrt.EnvFixed("NO_COLOR", "1")
	vxCalibrateSummary()
	ev := map[uint8]int{}
	vals := [4]int{}
	for k := 0; k < 4; k++ {
		vals[k] = vxCounterVals[vxrt.Choice("counter", len(vxCounterVals))]
		if vals[k] != 0 {
			ev[uint8(k)] = vals[k]
		}
	}
	skips := vxCounterVals[vxrt.Choice("skips", len(vxCounterVals))]
	nf := vxrt.Len("obsolete-files", 0, 2)
	nt := vxrt.Len("obsolete-tests", 0, 2)
	files := []string{"dir/a%d.snap", "b.snap"}[:nf]
	tests := []string{"TestX/100%_done - 1", "TestY - 2"}[:nt]
	upd := vxrt.Bool("removed-mode")
	s := summary(files, tests, skips, ev, upd)
	if len(ev) == 0 && skips == 0 && nf == 0 && nt == 0 {
		vxrt.Assert(s == "", "C20:empty-summary")
		return
	}
	lines := strings.Split(s, "\n")
	find := func(suffix string) (int, bool) {
		for _, l := range lines {
			if strings.HasSuffix(l, suffix) {
				f := strings.Fields(l)
				if len(f) >= 2 {
					n := 0
					for _, ch := range f[1] {
						if ch < '0' || ch > '9' {
							return 0, false
						}
						n = n*10 + int(ch-'0')
					}
					return n, true
				}
			}
		}
		return 0, false
	}
	check := func(verb string, want int, label string) {
		n1, ok1 := find(" snapshot " + verb)
		n2, ok2 := find(" snapshots " + verb)
		switch {
		case want == 0:
			vxrt.Assert(!ok1 && !ok2, label+"-absent-iff-zero")
		case want == 1:
			vxrt.Assert(ok1 && n1 == 1 && !ok2, label+"-singular")
		default:
			vxrt.Assert(ok2 && n2 == want && !ok1, label+"-count")
		}
	}
	check("passed", vals[passed], "C20:summary-passed")
	check("failed", vals[erred], "C20:summary-failed")
	check("added", vals[added], "C20:summary-added")
	check("updated", vals[updated], "C20:summary-updated")
	check("skipped", skips, "C20:summary-skipped")
	// obsolete lists
	action := "obsolete"
	if upd {
		action = "removed"
	}
	countListed := func(items []string) int {
		n := 0
		for _, it := range items {
			for _, l := range lines {
				if strings.HasSuffix(l, vxBullet+it) {
					n++
				}
			}
		}
		return n
	}
	vxrt.Assert(countListed(files) == nf && countListed(tests) == nt, "C20:summary-lists-exactly-the-obsolete-items")
	if nf > 0 {
		w := " snapshot file " + action
		if nf > 1 {
			w = " snapshot files " + action
		}
		vxrt.Assert(strings.Contains(s, vxArrow+vxItoa(nf)+w), "C20:summary-file-header")
	}
	if nt > 0 {
		w := " snapshot test " + action
		if nt > 1 {
			w = " snapshot tests " + action
		}
		vxrt.Assert(strings.Contains(s, vxArrow+vxItoa(nt)+w), "C20:summary-test-header")
	}
}

// counter values: absent, singular, plural, two digits
var vxCounterVals = []int{0, 1, 2, 11}

// H_C20_skips: the summary's skip count is the number of snaps.Skip* calls made
// in the process, whatever the names (repeated, parent then child, ...).
func H_C20_skips() {
	vxrt.CI(false)
	vxrt.EnvFixed("NO_COLOR", "1")
	vxrt.Flag("test.run", "")
	vxrt.Flag("test.count", "1")
	names := []string{"TestP", "TestP/child", "TestQ"}
	if vxrt.Bool("a-used-file-holds-entries-of-the-sub-tests") {
		// Clean examines a file in use that holds entries of TestP's sub-tests: looking at them does
		// not count as skipping
		dir := vxrt.Dir()
		vxWriteFile(dir+"/f.snap", vxFrame("TestR - 1", "r")+vxFrame("TestP/child - 1", "c")+vxFrame("TestP/child - 2", "c2")+vxFrame("TestP/kid/deep - 1", "d"))
		c := WithConfig(Dir(dir), Filename("f"), Update(false))
		tr := vxNewT("TestR")
		c.MatchSnapshot(tr, "r")
		tr.end()
		vxrt.Assert(len(tr.errors) == 0, "setup:passes")
	}
	k := vxrt.Len("skip-calls", 1, vxrt.Param("skips", 3))
	for s := 0; s < k; s++ {
		t := vxNewT(names[vxrt.Choice("who", len(names))])
		w := vxrt.Choice("wrapper", 4)
		after := false
		// the body runs on its own goroutine and the skip ends it, as with a real testing.T
		vxRunTest(t, func() {
			switch w {
			case 3:
				Skip(t) // no reason given
			case 0:
				Skip(t, "x")
			case 1:
				Skipf(t, "%s", "x")
			default:
				SkipNow(t)
			}
			after = true
		})
		vxrt.Assert(!after, "setup:skip-ends-the-test-body")
		vxrt.Assert(t.skips == 1 && len(t.logs) == 1, "C20:skip-forwards-and-logs")
	}
	Clean(nil)
	out := vxrt.Stdout()
	want := vxSkipMark + vxItoa(k) + " snapshot skipped\n"
	if k > 1 {
		want = vxSkipMark + vxItoa(k) + " snapshots skipped\n"
	}
	vxrt.Assert(strings.Contains(out, want), "C20:summary-counts-every-skip-call")
}

// H_C20_concurrent: outcome counters and the skip list are updated from two
// goroutines; with scheduling points at every access to the shared map and
// slice no update is lost (final counts = initial + 2 each).
func H_C20_concurrent() {
	vxrt.CI(false)
	vxrt.EnvFixed("NO_COLOR", "1")
	vxForceInit()
	vxrt.Shared(testEvents)
	vxrt.Shared(skippedTests)
	ev := []uint8{erred, added, updated, passed}[vxrt.Choice("event", 4)]
	before := testEvents.items[ev]
	skipsBefore := len(skippedTests.values)
	var wg sync.WaitGroup
	wg.Add(2)
	for g := 0; g < 2; g++ {
		name := []string{"TestP", "TestQ"}[g]
		go func() {
			defer wg.Done()
			testEvents.register(ev)
			trackSkip(vxNewT(name))
		}()
	}
	wg.Wait()
	vxrt.Assert(testEvents.items[ev] == before+2, "C20:no-lost-outcome-count")
	vxrt.Assert(len(skippedTests.values) == skipsBefore+2, "C20:no-lost-skip-record")
}

// summaryCount finds the "<symbol> N snapshot(s) <verb>" line of a printed summary.
func vxSummaryCount(out, verb string) (int, bool) {
	for _, l := range strings.Split(out, "\n") {
		if strings.HasSuffix(l, " snapshot "+verb) || strings.HasSuffix(l, " snapshots "+verb) {
			f := strings.Fields(l)
			if len(f) >= 2 {
				n := 0
				for _, ch := range f[1] {
					if ch < '0' || ch > '9' {
						return 0, false
					}
					n = n*10 + int(ch-'0')
				}
				return n, true
			}
		}
	}
	return 0, false
}

// H_C20_clean_summary: a small program (a passing call, optionally a failing call and a
// call that records a new snapshot) runs -count times; the summary that Clean prints at the
// end shows, per outcome, the number of calls that ended in that outcome over the whole
// process (a line is absent iff that number is 0).
func H_C20_clean_summary() {
	vxrt.CI(false)
	vxrt.EnvFixed("NO_COLOR", "1")
	vxrt.Flag("test.run", "")
	count := vxrt.Len("count", 1, vxrt.Param("count", 2))
	vxrt.Flag("test.count", vxItoa(count))
	dir := vxrt.Dir()
	vxWriteFile(dir+"/f.snap", vxFrame("TestM - 1", "one")+vxFrame("TestM - 2", "two"))
	c := WithConfig(Dir(dir), Filename("f"))
	withFail := vxrt.Bool("a-failing-call")
	withAdd := vxrt.Bool("a-new-snapshot")
	// optionally both files in use hold an obsolete entry, with the same id
	withObsolete := vxrt.Bool("same-obsolete-id-in-two-files")
	cg := WithConfig(Dir(dir), Filename("g"))
	if withObsolete {
		// (the file is larger than a 4 KiB read buffer: a third obsolete entry is long)
		long := make([]byte, 5000)
		for i := range long {
			long[i] = 'x'
			if i%80 == 79 {
				long[i] = '\n'
			}
		}
		vxWriteFile(dir+"/f.snap", vxFrame("TestM - 1", "one")+vxFrame("TestOld - 1", "stale in f")+vxFrame("TestM - 2", "two")+vxFrame("TestOld - 2", string(long)))
		vxWriteFile(dir+"/g.snap", vxFrame("TestM - 1", "gee")+vxFrame("TestOld - 1", "stale in g"))
	}
	// the newly recorded value may be one line of 70 000 bytes (a minified document): the file
	// then holds a line longer than bufio's default token limit when Clean reads it
	three := "three"
	if withAdd && vxrt.Bool("the-new-snapshot-is-one-70KB-line") {
		buf := make([]byte, 70000)
		for i := range buf {
			buf[i] = 'y'
		}
		three = string(buf)
	}
	nPassed, nFailed, nAdded := 0, 0, 0
	for r := 0; r < count; r++ {
		t := vxNewT("TestM")
		if withObsolete {
			cg.MatchSnapshot(t, "gee")
			nPassed++
		}
		c.MatchSnapshot(t, "one")
		nPassed++
		if withFail {
			c.MatchSnapshot(t, "other")
			nFailed++
		} else {
			c.MatchSnapshot(t, "two")
			nPassed++
		}
		if withAdd {
			c.MatchSnapshot(t, three)
			if r == 0 {
				nAdded++
			} else {
				nPassed++
			}
		}
		t.end()
		vxrt.Assert(len(t.errors) == nFailed/(r+1), "setup:program-outcomes")
	}
	Clean(nil)
	out := vxrt.Stdout()
	if withObsolete {
		vxrt.Assert(strings.Contains(out, vxArrow+"3 snapshot tests obsolete") && strings.Count(out, vxBullet+"TestOld - 1\n") == 2 && strings.Count(out, vxBullet+"TestOld - 2\n") == 1, "C20:summary-lists-every-obsolete-entry")
	}
	for _, e := range []struct {
		verb string
		want int
	}{{"passed", nPassed}, {"failed", nFailed}, {"added", nAdded}, {"updated", 0}} {
		n, ok := vxSummaryCount(out, e.verb)
		if e.want == 0 {
			vxrt.Assert(!ok, "C20:summary-line-absent-iff-no-such-outcome")
		} else {
			vxrt.Assert(ok && n == e.want, "C20:summary-counts-every-call-of-the-process")
		}
	}
}
