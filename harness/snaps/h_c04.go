//go:build verif || verif_replay

package snaps

import (
	"github.com/gkampitakis/go-snaps/internal/vxrt"
)

// H_C04_update: with updating enabled a run rewrites exactly the entries whose
// value changed, to exactly the new values, leaves the others byte-identical
// and in place, leaves no residue, writes nothing for matching calls, and an
// immediately following read-only run passes without writing.
func H_C04_update() {
	vxrt.CI(false)
	dir := vxrt.Dir()
	path := dir + "/f.snap"
	k := vxrt.Len("frames", vxrt.Param("minframes", 1), vxrt.Param("frames", 2))
	n := vxrt.Param("n", 3)
	ascii := vxrt.Param("ascii", 1) == 1
	names := []string{"TestA", "TestB", "TestC"}
	old := make([]string, k)
	content := ""
	structured := vxrt.Param("struct", 0) == 1
	gen := func(label string) string {
		if structured {
			return structText(label, vxrt.Param("lines", 2))
		}
		return symText(label, n, ascii)
	}
	big := vxrt.Param("big", 0)
	for i := 0; i < k; i++ {
		old[i] = gen("old")
		if big > 0 && i == 0 {
			// a first entry larger than bufio's initial 4096-byte read
			filler := make([]byte, big)
			for j := range filler {
				filler[j] = 'x'
			}
			old[i] = string(filler) + "\n" + old[i]
		}
		content += frame(names[i]+" - 1", escapeRef(old[i]))
	}
	writeFile(path, content)

	upd := WithConfig(Dir(dir), Filename("f"), Update(true))
	kind := kindSnapshot
	if structured {
		vxrt.YAMLAssume(true)
		kind = vxrt.Choice("kind", 2) // MatchSnapshot or MatchYAML
	}
	newv := make([]string, k)
	changed := make([]bool, k)
	for i := 0; i < k; i++ {
		if (big == 0 || i > 0) && vxrt.Bool("changes") {
			changed[i] = true
			newv[i] = gen("new")
			vxrt.Assume(differs(old[i], newv[i]))
			if vxrt.Param("known_K1", 1) == 1 {
				vxrt.Assume(vxrt.Not(k1EscapeAlias(old[i], newv[i])))
			}
		} else {
			newv[i] = old[i]
		}
	}
	for i := 0; i < k; i++ {
		t := newT(names[i])
		stamp := vxrt.FSStamp()
		doCall(upd, t, kind, newv[i])
		t.end()
		vxrt.Assert(len(t.errors) == 0, "C04:update-run-no-error")
		if changed[i] {
			vxrt.Reach("changed")
			vxrt.Assert(len(t.logs) == 1, "C04:changed-entry-logged-updated")
		} else {
			vxrt.Reach("unchanged")
			vxrt.Assert(len(t.logs) == 0, "C04:matching-call-silent")
			vxrt.Assert(vxrt.FSStamp() == stamp, "C04:matching-call-writes-nothing")
		}
	}
	// the file is exactly the frames with the new values, in place, no residue
	want := ""
	for i := 0; i < k; i++ {
		want += frame(names[i]+" - 1", escapeRef(newv[i]))
	}
	vxrt.Assert(vxrt.Eq(readFile(path), want), "C04:file-is-exactly-the-new-frames")

	// read-only run passes completely, without writing
	ro := WithConfig(Dir(dir), Filename("f"), Update(false))
	stamp := vxrt.FSStamp()
	for i := 0; i < k; i++ {
		t := newT(names[i])
		doCall(ro, t, kind, newv[i])
		t.end()
		vxrt.Assert(len(t.errors) == 0 && len(t.logs) == 0, "C04:read-only-run-passes")
	}
	vxrt.Assert(vxrt.FSStamp() == stamp, "C04:read-only-run-writes-nothing")
}

// H_C04_standalone: update mode replaces a standalone file wholesale.
func H_C04_standalone() {
	vxrt.CI(false)
	dir := vxrt.Dir()
	n := vxrt.Param("n", 3)
	old := symText("old", n, true)
	newv := symText("new", n, true)
	vxrt.Assume(differs(old, newv))
	writeFile(dir+"/TestS_1.snap", old)
	upd := WithConfig(Dir(dir), Update(true))
	t := newT("TestS")
	upd.MatchStandaloneSnapshot(t, newv)
	t.end()
	vxrt.Assert(len(t.errors) == 0 && len(t.logs) == 1, "C04:standalone-updated")
	vxrt.Assert(vxrt.Eq(readFile(dir+"/TestS_1.snap"), newv), "C04:standalone-file-is-new-value")
	ro := WithConfig(Dir(dir), Update(false))
	stamp := vxrt.FSStamp()
	t2 := newT("TestS")
	ro.MatchStandaloneSnapshot(t2, newv)
	t2.end()
	vxrt.Assert(len(t2.errors) == 0 && len(t2.logs) == 0, "C04:standalone-read-only-passes")
	vxrt.Assert(vxrt.FSStamp() == stamp, "C04:standalone-read-only-writes-nothing")
}
