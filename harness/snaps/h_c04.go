//go:build verif || verif_replay

package snaps

import (
	"github.com/gkampitakis/go-snaps/internal/vxrt"
)

// H_C04_update: with updating enabled a run rewrites exactly the entries whose
// value changed, to exactly the new values, leaves the others byte-identical
// and in place, leaves no residue, writes nothing for matching calls, and an
// immediately following read-only run passes without writing.
func H_C04_update() {
	vxrt.CI(false)
	dir := vxrt.Dir()
	path := dir + "/f.snap"
	k := vxrt.Len("frames", vxrt.Param("minframes", 1), vxrt.Param("frames", 2))
	n := vxrt.Param("n", 3)
	ascii := vxrt.Param("ascii", 1) == 1
	names := []string{"TestA", "TestB", "TestC"}
	old := make([]string, k)
	content := ""
	structured := vxrt.Param("struct", 0) == 1
	gen := func(label string) string {
		if structured {
			return vxStructText(label, vxrt.Param("lines", 2))
		}
		return vxSymText(label, n, ascii)
	}
	big := vxrt.Param("big", 0)
	for i := 0; i < k; i++ {
		old[i] = gen("old")
		if big > 0 && i == 0 {
			// a first entry larger than bufio's initial 4096-byte read
			filler := make([]byte, big)
			for j := range filler {
				filler[j] = 'x'
			}
			old[i] = string(filler) + "\n" + old[i]
		}
		content += vxFrame(names[i]+" - 1", vxEscapeRef(old[i]))
	}
	vxWriteFile(path, content)

	upd := WithConfig(Dir(dir), Filename("f"), Update(true))
	kind := vxKindSnapshot
	if structured {
		vxrt.YAMLAssume(true)
		kind = vxrt.Choice("kind", 2) // MatchSnapshot or MatchYAML
	}
	newv := make([]string, k)
	changed := make([]bool, k)
	for i := 0; i < k; i++ {
		if (big == 0 || i > 0) && vxrt.Bool("changes") {
			changed[i] = true
			newv[i] = gen("new")
			vxrt.Assume(vxDiffers(old[i], newv[i]))
			if vxrt.Param("known_K1", 1) == 1 {
				vxrt.Assume(vxrt.Not(vxK1EscapeAlias(old[i], newv[i])))
			}
		} else {
			newv[i] = old[i]
		}
	}
	for i := 0; i < k; i++ {
		t := vxNewT(names[i])
		stamp := vxrt.FSStamp()
		vxDoCall(upd, t, kind, newv[i])
		t.end()
		vxrt.Assert(len(t.errors) == 0, "C04:update-run-no-error")
		if changed[i] {
			vxrt.Reach("changed")
			vxrt.Assert(len(t.logs) == 1, "C04:changed-entry-logged-updated")
		} else {
			vxrt.Reach("unchanged")
			vxrt.Assert(len(t.logs) == 0, "C04:matching-call-silent")
			vxrt.Assert(vxrt.FSStamp() == stamp, "C04:matching-call-writes-nothing")
		}
	}
	// the file is exactly the frames with the new values, in place, no residue
	want := ""
	for i := 0; i < k; i++ {
		want += vxFrame(names[i]+" - 1", vxEscapeRef(newv[i]))
	}
	vxrt.Assert(vxrt.Eq(vxReadFile(path), want), "C04:file-is-exactly-the-new-frames")

	// read-only run passes completely, without writing
	ro := WithConfig(Dir(dir), Filename("f"), Update(false))
	stamp := vxrt.FSStamp()
	for i := 0; i < k; i++ {
		t := vxNewT(names[i])
		vxDoCall(ro, t, kind, newv[i])
		t.end()
		vxrt.Assert(len(t.errors) == 0 && len(t.logs) == 0, "C04:read-only-run-passes")
	}
	vxrt.Assert(vxrt.FSStamp() == stamp, "C04:read-only-run-writes-nothing")
}

// H_C04_standalone: update mode replaces a standalone file wholesale.
func H_C04_standalone() {
	vxrt.Chdir() // the working directory is not the test file's (and natively several levels deep)
	vxrt.CI(false)
	dir := vxrt.Dir()
	n := vxrt.Param("n", 3)
	old := vxSymText("old", n, true)
	newv := vxSymText("new", n, true)
	vxrt.Assume(vxDiffers(old, newv))
	vxWriteFile(dir+"/TestS_1.snap", old)
	upd := WithConfig(Dir(dir), Update(true))
	t := vxNewT("TestS")
	upd.MatchStandaloneSnapshot(t, newv)
	t.end()
	vxrt.Assert(len(t.errors) == 0 && len(t.logs) == 1, "C04:standalone-updated")
	vxrt.Assert(vxrt.Eq(vxReadFile(dir+"/TestS_1.snap"), newv), "C04:standalone-file-is-new-value")
	ro := WithConfig(Dir(dir), Update(false))
	stamp := vxrt.FSStamp()
	t2 := vxNewT("TestS")
	ro.MatchStandaloneSnapshot(t2, newv)
	t2.end()
	vxrt.Assert(len(t2.errors) == 0 && len(t2.logs) == 0, "C04:standalone-read-only-passes")
	vxrt.Assert(vxrt.FSStamp() == stamp, "C04:standalone-read-only-writes-nothing")
}

// H_C04_layouts: snapshot files whose layout is not exactly what the library writes (hand-edited,
// merged, written by an older version): no newline after the last end marker, no blank line
// between entries, extra blank lines, CRLF between entries. An update of the first, middle or last
// entry replaces that entry's value and no other: every entry replays afterwards (the updated one
// with its new value) in a read-only execution.
func H_C04_layouts() {
	vxrt.CI(false)
	vxrt.EnvFixed("NO_COLOR", "1")
	dir := vxrt.Dir()
	path := dir + "/f.snap"
	ids := []string{"TestA - 1", "TestB - 1", "TestC - 1"}
	old := []string{"a-old", "b-old\nsecond", "c-old"}
	var content string
	switch vxrt.Choice("layout", 6) {
	case 5: // CRLF line endings between the entries (an autocrlf checkout); one-line values only
		old = []string{"a-old", "b-old", "c-old"}
		for k := range ids {
			content += "\r\n[" + ids[k] + "]\r\n" + old[k] + "\r\n---\r\n"
		}
	case 0: // as written by the library
		content = vxFrame(ids[0], old[0]) + vxFrame(ids[1], old[1]) + vxFrame(ids[2], old[2])
	case 1: // no newline at the very end
		content = vxFrame(ids[0], old[0]) + vxFrame(ids[1], old[1]) + "\n[" + ids[2] + "]\n" + old[2] + "\n---"
	case 2: // no blank line before the headers
		content = "[" + ids[0] + "]\n" + old[0] + "\n---\n[" + ids[1] + "]\n" + old[1] + "\n---\n[" + ids[2] + "]\n" + old[2] + "\n---\n"
	case 3: // extra blank lines between entries
		content = "\n\n" + vxFrame(ids[0], old[0]) + "\n\n" + vxFrame(ids[1], old[1]) + "\n" + vxFrame(ids[2], old[2]) + "\n\n"
	default: // a file that ends right after the last end marker of a one-line entry, twice
		content = vxFrame(ids[0], old[0]) + vxFrame(ids[1], old[1]) + vxFrame(ids[2], old[2])
		content = content[:len(content)-1]
	}
	vxWriteFile(path, content)
	target := vxrt.Choice("updated-entry", 3)
	names := []string{"TestA", "TestB", "TestC"}
	upd := WithConfig(Dir(dir), Filename("f"), Update(true))
	tu := vxNewT(names[target])
	upd.MatchSnapshot(tu, "fresh value")
	tu.end()
	vxrt.Assert(len(tu.errors) == 0 && len(tu.logs) == 1, "C04:update-reports-updated")
	ro := WithConfig(Dir(dir), Filename("f"), Update(false))
	for k := range names {
		t := vxNewT(names[k])
		want := old[k]
		if k == target {
			want = "fresh value"
		}
		ro.MatchSnapshot(t, want)
		t.end()
		vxrt.Assert(len(t.errors) == 0 && len(t.logs) == 0, "C04:every-entry-replays-after-the-update")
	}
}

// H_C04_grow: an update that makes an entry several KB longer, in a file of a dozen 1 KB entries
// (larger than a reader's look-ahead): the updated entry holds the new value and every other
// entry replays unchanged in a read-only execution.
func H_C04_grow() {
	vxrt.CI(false)
	vxrt.EnvFixed("NO_COLOR", "1")
	dir := vxrt.Dir()
	path := dir + "/f.snap"
	n := vxrt.Param("entries", 12)
	body := func(k, size int) string {
		b := make([]byte, size)
		for i := range b {
			b[i] = byte('a' + (k+i)%26)
			if i%64 == 63 {
				b[i] = '\n'
			}
		}
		return "entry " + vxItoa(k) + "\n" + string(b) + "\nend " + vxItoa(k)
	}
	content := ""
	for k := 0; k < n; k++ {
		content += vxFrame("TestG"+vxItoa(k)+" - 1", body(k, 1000))
	}
	vxWriteFile(path, content)
	target := []int{0, 1, n / 2}[vxrt.Choice("updated-entry", 3)]
	newBody := body(target+100, 1000+vxrt.Param("grow", 6000))
	upd := WithConfig(Dir(dir), Filename("f"), Update(true))
	tu := vxNewT("TestG" + vxItoa(target))
	upd.MatchSnapshot(tu, newBody)
	tu.end()
	vxrt.Assert(len(tu.errors) == 0 && len(tu.logs) == 1, "C04:update-reports-updated")
	ro := WithConfig(Dir(dir), Filename("f"), Update(false))
	for k := 0; k < n; k++ {
		t := vxNewT("TestG" + vxItoa(k))
		if k == target {
			ro.MatchSnapshot(t, newBody)
		} else {
			ro.MatchSnapshot(t, body(k, 1000))
		}
		t.end()
		vxrt.Assert(len(t.errors) == 0 && len(t.logs) == 0, "C04:every-entry-replays-after-the-update")
	}
}
