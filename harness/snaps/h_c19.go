//go:build verif || verif_replay

package snaps

import (
	"strconv"

	"github.com/gkampitakis/go-snaps/internal/vxrt"
	krpretty "github.com/kr/pretty"
	"github.com/tidwall/pretty"
)

// H_C19_standalone: a standalone file is exactly the formatted value (CR
// included), the k-th call maps to file k in every execution, replay passes.
func H_C19_standalone() {
	vxrt.CI(false)
	dir := vxrt.Dir()
	c := WithConfig(Dir(dir))
	calls := vxrt.Len("calls", 1, vxrt.Param("calls", 2))
	n := vxrt.Param("n", 3)
	vals := make([]string, calls)
	for k := range vals {
		vals[k] = vxrt.Text("value", vxrt.Len("value-len", 0, n))
		vxrt.Assume(vxPlainText(vals[k])) // formatted text of the string is the string; CR is allowed
	}
	t1 := vxNewT("TestS/sub")
	for k := range vals {
		c.MatchStandaloneSnapshot(t1, vals[k])
	}
	t1.end()
	vxrt.Assert(len(t1.errors) == 0 && len(t1.logs) == calls, "C19:record")
	for k := range vals {
		p := dir + "/TestS_sub_" + strconv.Itoa(k+1) + ".snap"
		vxrt.Assert(vxrt.Eq(vxReadFile(p), vals[k]), "C19:file-k-is-exactly-value-k")
	}
	ents, _ := vxOsReadDirNames(dir)
	vxrt.Assert(len(ents) == calls, "C19:one-file-per-call")
	// second and third execution (-count): same mapping, passes, writes nothing
	stamp := vxrt.FSStamp()
	for round := 0; round < 2; round++ {
		t2 := vxNewT("TestS/sub")
		for k := range vals {
			c.MatchStandaloneSnapshot(t2, vals[k])
		}
		t2.end()
		vxrt.Assert(len(t2.errors) == 0 && len(t2.logs) == 0, "C19:replay-passes")
		vxrt.Assert(vxrt.FSStamp() == stamp, "C19:replay-writes-nothing")
	}
}

// H_C19_json: a standalone JSON file is the canonical pretty JSON, valid, with
// no added newline.
func H_C19_json() {
	vxrt.CI(false)
	dir := vxrt.Dir()
	c := WithConfig(Dir(dir))
	doc := vxJsonTemplate("doc", vxrt.Param("n", 2))
	t1 := vxNewT("TestJ")
	c.MatchStandaloneJSON(t1, doc)
	t1.end()
	vxrt.Assert(len(t1.errors) == 0 && len(t1.logs) == 1, "C19:json-record")
	got := vxReadFile(dir + "/TestJ_1.snap.json")
	// the canonical form: tidwall/pretty with sorted keys and one-space indent, final newline trimmed
	want := string(pretty.PrettyOptions([]byte(doc), &pretty.Options{SortKeys: true, Indent: " "}))
	if len(want) > 0 && want[len(want)-1] == '\n' {
		want = want[:len(want)-1]
	}
	vxrt.Assert(vxrt.Eq(got, want), "C19:json-file-is-pretty-json")
	vxrt.Assert(vxValidJSONString(got), "C19:json-file-is-valid-json")
	vxrt.Assert(len(got) > 0 && got[len(got)-1] != '\n', "C19:json-no-added-newline")
	t2 := vxNewT("TestJ")
	stamp := vxrt.FSStamp()
	c.MatchStandaloneJSON(t2, doc)
	t2.end()
	vxrt.Assert(len(t2.errors) == 0 && len(t2.logs) == 0 && vxrt.FSStamp() == stamp, "C19:json-replay-passes")
}

// H_C19_mixed: one test mixes the two standalone entry points and Configs with different
// Filename / Ext; the k-th call for a location still maps to file k of that location,
// and a second execution replays every call.
func H_C19_mixed() {
	vxrt.CI(false)
	dir := vxrt.Dir()
	cfgs := []*Config{WithConfig(Dir(dir)), WithConfig(Dir(dir), Ext(".txt")), WithConfig(Dir(dir), Filename("fn"))}
	calls := vxrt.Len("calls", 2, vxrt.Param("calls", 2))
	apis := make([]int, calls)
	cfs := make([]int, calls)
	for k := 0; k < calls; k++ {
		apis[k] = vxrt.Choice("api", 2)
		cfs[k] = vxrt.Choice("config", 3)
	}
	run := func(t *vxMockT, record bool) {
		counts := map[string]int{}
		for k := 0; k < calls; k++ {
			base, ext := "TestM", ""
			if cfs[k] == 2 {
				base = "fn"
			}
			if cfs[k] == 1 {
				ext = ".txt"
			}
			if apis[k] == 1 && ext == "" {
				ext = ".json"
			}
			counts[base+"|"+ext]++
			p := dir + "/" + base + "_" + strconv.Itoa(counts[base+"|"+ext]) + ".snap" + ext
			val := `"v` + strconv.Itoa(k) + `"`
			if apis[k] == 0 {
				cfgs[cfs[k]].MatchStandaloneSnapshot(t, val)
			} else {
				cfgs[cfs[k]].MatchStandaloneJSON(t, val)
			}
			if record {
				vxrt.Assert(vxReadFile(p) == val, "C19:call-k-of-a-location-is-file-k")
			}
		}
	}
	t1 := vxNewT("TestM")
	run(t1, true)
	t1.end()
	vxrt.Assert(len(t1.errors) == 0 && len(t1.logs) == calls, "C19:mixed-record")
	ents, _ := vxOsReadDirNames(dir)
	vxrt.Assert(len(ents) == calls, "C19:one-file-per-call")
	stamp := vxrt.FSStamp()
	t2 := vxNewT("TestM")
	run(t2, false)
	t2.end()
	vxrt.Assert(len(t2.errors) == 0 && len(t2.logs) == 0 && vxrt.FSStamp() == stamp, "C19:mixed-replay-passes")
}

// H_C19_tabs: standalone values with the bytes the formatter's tabwriter rewrites (tab, vertical
// tab, form feed): the file holds exactly the formatted value - what pretty.Sprint gives for the
// value - and replays; a file holding the raw text instead would not be the formatted value.
func H_C19_tabs() {
	vxrt.CI(false)
	vxrt.EnvFixed("NO_COLOR", "1")
	dir := vxrt.Dir()
	c := WithConfig(Dir(dir), Filename("f"))
	v := []string{"a\tb", "name\tvalue\nlonger name\tv2", "x\vy", "p\fq", "plain", "tab at end\t"}[vxrt.Choice("value", 6)]
	want := krpretty.Sprint(v)
	keyed := vxrt.Bool("keyed")
	for round := 0; round < 2; round++ {
		t := vxNewT("TestT")
		if keyed {
			c.MatchSnapshot(t, v)
		} else {
			c.MatchStandaloneSnapshot(t, v)
		}
		t.end()
		vxrt.Assert(len(t.errors) == 0 && len(t.logs) == 1-round, "C19:replay-passes")
		if keyed {
			got, _, err := vxRefPrev("[TestT - 1]", dir+"/f.snap")
			vxrt.Assert(err == nil && got == want, "C01:stored-value-is-the-formatted-value")
		} else {
			vxrt.Assert(vxReadFile(dir+"/f_1.snap") == want, "C19:file-bytes-are-the-formatted-value")
		}
	}
}
