//go:build verif || verif_replay

package snaps

import (
	"sync"

	"github.com/gkampitakis/go-snaps/internal/vxrt"
)

const (
	vxParCreate = iota
	vxParMatch
	vxParMismatch
	vxParUpdate
)

// H_C06_parallel: two tests run concurrently against one snapshot file, each
// making one call that creates, matches, mismatches or updates its entry.
// Every call gets the outcome of a serial execution and the final file holds
// exactly one well-formed entry per slot with the right value.
func H_C06_parallel() {
	vxrt.CI(false)
	vxrt.EnvFixed("NO_COLOR", "1")
	dir := vxrt.Dir()
	path := dir + "/f.snap"
	kinds := [2]int{vxrt.Choice("kind-A", 4), vxrt.Choice("kind-B", 4)}
	// stored and new values: symbolic texts (so that what is decided under each
	// schedule holds for all values), or fixed letters
	sv, nv := "s", "n"
	if k := vxrt.Param("sym", 1); k > 0 {
		sv = vxSymText("stored", k, true)
		nv = vxSymText("new", k, true)
		vxrt.Assume(vxDiffers(sv, nv))
		vxrt.Assume(vxrt.Not(vxrt.Or(vxHasLine(sv, "---"), vxHasLine(nv, "---"))))
	}
	names := [2]string{"TestA", "TestB"}
	content := vxFrame("TestZ - 1", "z")
	for g := 0; g < 2; g++ {
		if kinds[g] != vxParCreate {
			content += vxFrame(names[g]+" - 1", sv)
		}
	}
	fresh := kinds[0] == vxParCreate && kinds[1] == vxParCreate && vxrt.Bool("brand-new-file")
	if !fresh {
		vxWriteFile(path, content)
	}
	plain := WithConfig(Dir(dir), Filename("f"))
	upd := WithConfig(Dir(dir), Filename("f"), Update(true))
	vxForceInit()
	// package-level variables of the library written by a call are scheduling points too
	vxrt.SharedGlobals("github.com/gkampitakis/go-snaps")
	ts := [2]*vxMockT{vxNewT(names[0]), vxNewT(names[1])}
	var wg sync.WaitGroup
	wg.Add(2)
	for g := 0; g < 2; g++ {
		g := g
		go func() {
			defer wg.Done()
			switch kinds[g] {
			case vxParCreate:
				plain.MatchSnapshot(ts[g], nv)
			case vxParMatch:
				plain.MatchSnapshot(ts[g], sv)
			case vxParMismatch:
				plain.MatchSnapshot(ts[g], nv)
			default:
				upd.MatchSnapshot(ts[g], nv)
			}
		}()
	}
	wg.Wait()
	ts[0].end()
	ts[1].end()
	wantBody := [2]string{}
	for g := 0; g < 2; g++ {
		switch kinds[g] {
		case vxParCreate:
			vxrt.Assert(len(ts[g].errors) == 0 && len(ts[g].logs) == 1, "C06:create-outcome-as-serial")
			wantBody[g] = nv
		case vxParMatch:
			vxrt.Assert(len(ts[g].errors) == 0 && len(ts[g].logs) == 0, "C06:match-outcome-as-serial")
			wantBody[g] = sv
		case vxParMismatch:
			vxrt.Assert(len(ts[g].errors) == 1 && len(ts[g].logs) == 0, "C06:mismatch-outcome-as-serial")
			wantBody[g] = sv
		default:
			vxrt.Assert(len(ts[g].errors) == 0 && len(ts[g].logs) == 1, "C06:update-outcome-as-serial")
			wantBody[g] = nv
		}
	}
	final := vxReadFile(path)
	total := 0
	if !fresh {
		total = len(vxFrame("TestZ - 1", "z"))
		got, _, err := vxRefPrev("[TestZ - 1]", path)
		vxrt.Assert(err == nil && got == "z", "C06:bystander-entry-intact")
	}
	for g := 0; g < 2; g++ {
		got, _, err := vxRefPrev("["+names[g]+" - 1]", path)
		vxrt.Assert(err == nil, "C06:no-entry-lost")
		vxrt.Assert(vxrt.Eq(got, wantBody[g]), "C06:entry-has-the-right-value")
		total += len(vxFrame(names[g]+" - 1", wantBody[g]))
	}
	vxrt.Assert(len(final) == total, "C06:no-duplicate-or-torn-entry")
}

// H_C06_twocalls: two tests run concurrently against one snapshot file, each recording two
// new snapshots; whatever the interleaving, both tests see "added" twice and the file ends up
// with the four slots holding their values (ordinals are per test, also when both tests touch
// the file for the first time at the same moment).
func H_C06_twocalls() {
	vxrt.CI(false)
	vxrt.EnvFixed("NO_COLOR", "1")
	dir := vxrt.Dir()
	path := dir + "/f.snap"
	if !vxrt.Bool("brand-new-file") {
		vxWriteFile(path, vxFrame("TestZ - 1", vxBystander()))
	}
	c := WithConfig(Dir(dir), Filename("f"))
	vxForceInit()
	// package-level variables of the library written by a call are scheduling points too
	vxrt.SharedGlobals("github.com/gkampitakis/go-snaps")
	names := [2]string{"TestA", "TestB"}
	ts := [2]*vxMockT{vxNewT(names[0]), vxNewT(names[1])}
	var wg sync.WaitGroup
	wg.Add(2)
	for g := 0; g < 2; g++ {
		g := g
		go func() {
			defer wg.Done()
			c.MatchSnapshot(ts[g], names[g]+"-one")
			c.MatchSnapshot(ts[g], names[g]+"-two")
		}()
	}
	wg.Wait()
	ts[0].end()
	ts[1].end()
	for g := 0; g < 2; g++ {
		vxrt.Assert(len(ts[g].errors) == 0 && len(ts[g].logs) == 2, "C06:create-outcome-as-serial")
		one, _, err1 := vxRefPrev("["+names[g]+" - 1]", path)
		two, _, err2 := vxRefPrev("["+names[g]+" - 2]", path)
		vxrt.Assert(err1 == nil && err2 == nil, "C06:no-entry-lost")
		vxrt.Assert(one == names[g]+"-one" && two == names[g]+"-two", "C06:entry-has-the-right-value")
	}
}

// H_C06_three: three tests run concurrently against one file and each finishes (its cleanups
// run) on its own goroutine: A records two snapshots, B updates its stored entry
// (read-modify-write), C records one. Whatever the interleaving no entry is lost and every
// slot holds its value.
func H_C06_three() {
	vxrt.CI(false)
	vxrt.EnvFixed("NO_COLOR", "1")
	dir := vxrt.Dir()
	path := dir + "/f.snap"
	vxWriteFile(path, vxFrame("TestB - 1", "old")+vxFrame("TestZ - 1", vxBystander()))
	plain := WithConfig(Dir(dir), Filename("f"))
	upd := WithConfig(Dir(dir), Filename("f"), Update(true))
	vxForceInit()
	// package-level variables of the library written by a call are scheduling points too
	vxrt.SharedGlobals("github.com/gkampitakis/go-snaps")
	ta, tb, tc := vxNewT("TestA"), vxNewT("TestB"), vxNewT("TestC")
	var wg sync.WaitGroup
	wg.Add(3)
	go func() {
		defer wg.Done()
		vxrt.Stagger()
		plain.MatchSnapshot(ta, "a-one")
		plain.MatchSnapshot(ta, "a-two")
		ta.end()
	}()
	go func() {
		defer wg.Done()
		vxrt.Stagger()
		upd.MatchSnapshot(tb, "new")
		tb.end()
	}()
	go func() {
		defer wg.Done()
		vxrt.Stagger()
		plain.MatchSnapshot(tc, "c-one")
		tc.end()
	}()
	wg.Wait()
	vxrt.Assert(len(ta.errors)+len(tb.errors)+len(tc.errors) == 0 && len(ta.logs) == 2 && len(tb.logs) == 1 && len(tc.logs) == 1, "C06:outcomes-as-serial")
	for _, e := range [][2]string{{"TestA - 1", "a-one"}, {"TestA - 2", "a-two"}, {"TestB - 1", "new"}, {"TestC - 1", "c-one"}, {"TestZ - 1", vxBystander()}} {
		got, _, err := vxRefPrev("["+e[0]+"]", path)
		vxrt.Assert(err == nil, "C06:no-entry-lost")
		vxrt.Assert(got == e[1], "C06:entry-has-the-right-value")
	}
}

// bystander is the body of an entry nobody addresses. In a native stress replay it is large (4 MiB), which
// only widens the window of a read-modify-write so that the stress replay has a chance to meet an
// interleaving the engine found; the engine explores the same scenario with a one-byte body.
func vxBystander() string {
	if !vxrt.Stress() {
		return "z"
	}
	b := make([]byte, 4<<20)
	for i := range b {
		b[i] = 'z'
		if i%100 == 99 {
			b[i] = '\n'
		}
	}
	return string(b)
}
