//go:build verif || verif_replay

package snaps

import (
	"sync"

	"github.com/gkampitakis/go-snaps/internal/vxrt"
)

const (
	parCreate = iota
	parMatch
	parMismatch
	parUpdate
)

// H_C06_parallel: two tests run concurrently against one snapshot file, each
// making one call that creates, matches, mismatches or updates its entry.
// Every call gets the outcome of a serial execution and the final file holds
// exactly one well-formed entry per slot with the right value.
func H_C06_parallel() {
	vxrt.CI(false)
	vxrt.EnvFixed("NO_COLOR", "1")
	dir := vxrt.Dir()
	path := dir + "/f.snap"
	kinds := [2]int{vxrt.Choice("kind-A", 4), vxrt.Choice("kind-B", 4)}
	// stored and new values: symbolic texts (so that what is decided under each
	// schedule holds for all values), or fixed letters
	sv, nv := "s", "n"
	if k := vxrt.Param("sym", 1); k > 0 {
		sv = symText("stored", k, true)
		nv = symText("new", k, true)
		vxrt.Assume(differs(sv, nv))
		vxrt.Assume(vxrt.Not(vxrt.Or(hasLine(sv, "---"), hasLine(nv, "---"))))
	}
	names := [2]string{"TestA", "TestB"}
	content := frame("TestZ - 1", "z")
	for g := 0; g < 2; g++ {
		if kinds[g] != parCreate {
			content += frame(names[g]+" - 1", sv)
		}
	}
	fresh := kinds[0] == parCreate && kinds[1] == parCreate && vxrt.Bool("brand-new-file")
	if !fresh {
		writeFile(path, content)
	}
	plain := WithConfig(Dir(dir), Filename("f"))
	upd := WithConfig(Dir(dir), Filename("f"), Update(true))
	_ = isCI // start-up happens before the goroutines start
	ts := [2]*mockT{newT(names[0]), newT(names[1])}
	var wg sync.WaitGroup
	wg.Add(2)
	for g := 0; g < 2; g++ {
		g := g
		go func() {
			defer wg.Done()
			switch kinds[g] {
			case parCreate:
				plain.MatchSnapshot(ts[g], nv)
			case parMatch:
				plain.MatchSnapshot(ts[g], sv)
			case parMismatch:
				plain.MatchSnapshot(ts[g], nv)
			default:
				upd.MatchSnapshot(ts[g], nv)
			}
		}()
	}
	wg.Wait()
	ts[0].end()
	ts[1].end()
	wantBody := [2]string{}
	for g := 0; g < 2; g++ {
		switch kinds[g] {
		case parCreate:
			vxrt.Assert(len(ts[g].errors) == 0 && len(ts[g].logs) == 1, "C06:create-outcome-as-serial")
			wantBody[g] = nv
		case parMatch:
			vxrt.Assert(len(ts[g].errors) == 0 && len(ts[g].logs) == 0, "C06:match-outcome-as-serial")
			wantBody[g] = sv
		case parMismatch:
			vxrt.Assert(len(ts[g].errors) == 1 && len(ts[g].logs) == 0, "C06:mismatch-outcome-as-serial")
			wantBody[g] = sv
		default:
			vxrt.Assert(len(ts[g].errors) == 0 && len(ts[g].logs) == 1, "C06:update-outcome-as-serial")
			wantBody[g] = nv
		}
	}
	final := readFile(path)
	total := 0
	if !fresh {
		total = len(frame("TestZ - 1", "z"))
		got, _, err := getPrevSnapshot("[TestZ - 1]", path)
		vxrt.Assert(err == nil && got == "z", "C06:bystander-entry-intact")
	}
	for g := 0; g < 2; g++ {
		got, _, err := getPrevSnapshot("["+names[g]+" - 1]", path)
		vxrt.Assert(err == nil, "C06:no-entry-lost")
		vxrt.Assert(vxrt.Eq(got, wantBody[g]), "C06:entry-has-the-right-value")
		total += len(frame(names[g]+" - 1", wantBody[g]))
	}
	vxrt.Assert(len(final) == total, "C06:no-duplicate-or-torn-entry")
}
