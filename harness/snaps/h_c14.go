//go:build verif || verif_replay

package snaps

import (
	"encoding/json"

	"github.com/gkampitakis/go-snaps/internal/vxrt"
	"github.com/gkampitakis/go-snaps/match"
	"github.com/tidwall/gjson"
	"github.com/tidwall/pretty"
)

// ws returns an insignificant white-space byte at the one gap chosen for this
// path (wsGap), nothing at the other gaps.
var vxWsGap = -1

func vxWs(label string) string {
	if int(label[1]-'0') != vxWsGap {
		return ""
	}
	b := vxrt.Text(label, 1)
	vxrt.Assume(vxrt.Or(vxrt.Or(b[0] == ' ', b[0] == '\t'), vxrt.Or(b[0] == '\n', b[0] == '\r')))
	return b
}

func vxSymKey(label string, n int) string {
	k := vxrt.Text(label, vxrt.Len(label+"-len", 0, n))
	for i := 0; i < len(k); i++ {
		vxrt.Assume(vxrt.And(vxrt.And(k[i] >= 0x20, k[i] < 0x7f), vxrt.And(k[i] != '"', k[i] != '\\')))
	}
	return k
}

func vxSymValue(label string) string {
	switch vxrt.Choice(label+"-kind", 4) {
	case 0:
		d := vxrt.Text(label+"-digit", 1)
		vxrt.Assume(vxrt.And(d[0] >= '0', d[0] <= '9'))
		return d
	case 1:
		return `"` + vxSymKey(label+"-str", 1) + `"`
	case 2:
		return []string{"true", "false", "null"}[vxrt.Choice(label+"-lit", 3)]
	default:
		return []string{"{}", "[]"}[vxrt.Choice(label+"-empty", 2)]
	}
}

// H_C14_canonical: the three input forms store the same text; insignificant
// white space and (by default) member order do not matter; the stored text is
// valid JSON and parses to the same value as the input.
func H_C14_canonical() {
	n := vxrt.Param("n", 1)
	k1, k2 := vxSymKey("k1", n), vxSymKey("k2", n)
	vxrt.Assume(vxDiffers(k1, k2)) // keys of one object pairwise distinct
	v1 := vxSymValue("v1")
	v2 := "7"
	if vxrt.Param("v2sym", 0) == 1 {
		v2 = vxSymValue("v2")
	}
	vxWsGap = vxrt.Choice("whitespace-gap", 8) - 1
	var plain, spaced, swapped string
	shape := vxrt.Choice("shape", 3)
	switch shape {
	case 0: // two members
		plain = `{"` + k1 + `":` + v1 + `,"` + k2 + `":` + v2 + `}`
		spaced = vxWs("w0") + `{` + vxWs("w1") + `"` + k1 + `"` + vxWs("w2") + `:` + vxWs("w3") + v1 + vxWs("w4") + `,` + `"` + k2 + `":` + v2 + vxWs("w5") + `}` + vxWs("w6")
		swapped = `{"` + k2 + `":` + v2 + `,"` + k1 + `":` + v1 + `}`
	case 1: // nested
		plain = `{"` + k1 + `":{"` + k2 + `":` + v1 + `}}`
		spaced = `{"` + k1 + `":` + vxWs("w1") + `{` + vxWs("w2") + `"` + k2 + `":` + v1 + vxWs("w3") + `}` + vxWs("w4") + `}`
		swapped = plain
	default: // array
		plain = `[` + v1 + `,` + v2 + `]`
		spaced = vxWs("w0") + `[` + vxWs("w1") + v1 + vxWs("w2") + `,` + vxWs("w3") + v2 + vxWs("w4") + `]`
		swapped = plain
	}
	// configuration: default, or explicit options
	var c *Config
	sortKeys := true
	switch vxrt.Choice("json-config", 3) {
	case 0:
		c = WithConfig(Dir(vxrt.Dir()), Filename("f"))
	case 1:
		sortKeys = false
		c = WithConfig(Dir(vxrt.Dir()), Filename("f"), JSON(JSONConfig{Indent: "\t", SortKeys: false}))
	default:
		c = WithConfig(Dir(vxrt.Dir()), Filename("f"), JSON(JSONConfig{Width: 80, Indent: "", SortKeys: true}))
	}
	// what MatchJSON stores for an input: each form is recorded by its own test
	// in a scratch directory and read back
	vxrt.CI(false)
	nth := 0
	snap := func(in any) (string, bool) {
		nth++
		t := vxNewT("TestForm" + vxItoa(nth))
		c.MatchJSON(t, in)
		t.end()
		if len(t.errors) != 0 || len(t.logs) != 1 {
			return "", false
		}
		got, _, err := vxRefPrev("[TestForm"+vxItoa(nth)+" - 1]", vxrt.Dir()+"/f.snap")
		return got, err == nil
	}
	sPlain, ok1 := snap(plain)
	sBytes, ok2 := snap([]byte(plain))
	sValue, ok3 := snap(vxrt.JSONValue{Doc: plain})
	sRaw, okRaw := snap(json.RawMessage(plain))
	vxrt.Assert(okRaw && vxrt.Eq(sPlain, sRaw), "C14:raw-message-stores-identically")
	sSpaced, ok4 := snap(spaced)
	vxrt.Assert(ok1 && ok2 && ok3 && ok4, "C14:template-accepted")
	// the caller's own bytes (white space included) are only read, with or without a matcher
	callerBytes := []byte(spaced)
	sSpacedBytes, ok6 := snap(callerBytes)
	vxrt.Assert(ok6 && vxrt.Eq(sPlain, sSpacedBytes), "C14:string-and-bytes-store-identically")
	vxrt.Assert(vxrt.Eq(string(callerBytes), spaced), "C14:caller-bytes-untouched")
	nth++
	tm := vxNewT("TestForm" + vxItoa(nth))
	c.MatchJSON(tm, callerBytes, match.Any("no.such.member").ErrOnMissingPath(false))
	tm.end()
	vxrt.Assert(len(tm.errors) == 0 && vxrt.Eq(string(callerBytes), spaced), "C14:caller-bytes-untouched")
	vxrt.Assert(vxrt.Eq(sPlain, sBytes), "C14:string-and-bytes-store-identically")
	vxrt.Assert(vxrt.Eq(sPlain, sValue), "C14:go-value-stores-identically")
	vxrt.Assert(vxrt.Eq(sPlain, sSpaced), "C14:whitespace-insensitive")
	if sortKeys {
		sSwapped, ok5 := snap(swapped)
		vxrt.Assert(ok5 && vxrt.Eq(sPlain, sSwapped), "C14:member-order-insensitive-by-default")
	}
	vxrt.Assert(gjson.Valid(sPlain), "C14:stored-text-is-valid-json")
	want := vxCompactRef(plain)
	if sortKeys && shape == 0 {
		// expected member order under sorting: by key bytes
		if k2 < k1 {
			want = vxCompactRef(swapped)
		}
	}
	vxrt.Assert(vxrt.Eq(vxCompactRef(sPlain), want), "C14:stored-text-has-the-same-value")
	vxrt.Assert(len(sPlain) == 0 || sPlain[len(sPlain)-1] != '\n', "C14:no-trailing-newline")
}

// H_C14_invalid: input that is not valid JSON fails the test and writes nothing.
func H_C14_invalid() {
	vxrt.CI(false)
	dir := vxrt.Dir()
	c := WithConfig(Dir(dir), Filename("f"))
	doc := vxrt.Text("doc", vxrt.Len("doc-len", 0, vxrt.Param("n", 3)))
	valid := gjson.Valid(doc)
	api := vxrt.Choice("api", 2)
	var in any = doc
	switch vxrt.Choice("input-form", 3) {
	case 1:
		in = []byte(doc)
	case 2:
		in = json.RawMessage(doc)
	}
	empty := vxDumpDir(dir)
	t := vxNewT("TestJ")
	if api == 0 {
		c.MatchJSON(t, in)
	} else {
		c.MatchStandaloneJSON(t, in)
	}
	t.end()
	if valid {
		vxrt.Reach("valid")
		vxrt.Assert(len(t.errors) == 0 && len(t.logs) == 1, "C14:valid-document-recorded")
		return
	}
	vxrt.Reach("invalid")
	vxrt.Assert(len(t.errors) == 1 && len(t.logs) == 0, "C14:invalid-fails-once")
	vxrt.Assert(vxrt.Eq(vxDumpDir(dir), empty), "C14:invalid-writes-nothing")
	// the rejected call consumed its slot: a following valid call of the same test is number 2
	t2 := vxNewT("TestJ2")
	if api == 0 {
		c.MatchJSON(t2, in)
		c.MatchJSON(t2, `{"ok":1}`)
		_, _, err := vxRefPrev("[TestJ2 - 2]", dir+"/f.snap")
		vxrt.Assert(err == nil, "C14:rejected-call-keeps-its-slot")
	} else {
		c.MatchStandaloneJSON(t2, in)
		c.MatchStandaloneJSON(t2, `{"ok":1}`)
		vxrt.Assert(vxReadFile(dir+"/f_2.snap.json") != "<missing>", "C14:rejected-call-keeps-its-slot")
	}
	t2.end()
}

// H_C14_update: an update stores the canonical text of the new document like a first recording
// does, whatever characters it contains ('$', '%', '\\' are special to the tools a rewrite might be
// built from): the next read-only execution replays it, and the stored text is the pretty form.
func H_C14_update() {
	vxrt.CI(false)
	vxrt.EnvFixed("NO_COLOR", "1")
	dir := vxrt.Dir()
	path := dir + "/f.snap"
	doc := []string{
		`{"price":"$10","expr":"${total}","group":"$1"}`,
		`{"pct":"100%d","fmt":"%s %v"}`,
		`{"path":"C:\\dir\\1","re":"\\1"}`,
		`{"n":9007199254740993,"d":0.10000000000000000001}`,
	}[vxrt.Choice("document", 4)]
	// what the slot held before: another document; the same document in a one-line layout (recorded
	// by hand or under other options); the same document but for a digit beyond float64 precision
	old := "{\n \"old\": true\n}"
	switch vxrt.Choice("previously-stored", 3) {
	case 1:
		old = doc
	case 2:
		old = "{\n \"d\": 0.1,\n \"n\": 9007199254740992\n}"
	}
	standalone := vxrt.Bool("standalone")
	upd := WithConfig(Dir(dir), Filename("f"), Update(true))
	ro := WithConfig(Dir(dir), Filename("f"), Update(false))
	if standalone {
		path = dir + "/f_1.snap.json"
		vxWriteFile(path, old)
	} else {
		vxWriteFile(path, vxFrame("TestZ - 1", "z")+vxFrame("TestJ - 1", old)+vxFrame("TestY - 1", "y"))
	}
	call := func(c *Config, t *vxMockT) {
		if standalone {
			c.MatchStandaloneJSON(t, doc)
		} else {
			c.MatchJSON(t, doc)
		}
	}
	// the stored text is not the canonical text of the document: without updating, one failure and no write
	before := vxDumpDir(dir)
	t0 := vxNewT("TestJ")
	call(ro, t0)
	t0.end()
	vxrt.Assert(len(t0.errors) == 1 && len(t0.logs) == 0 && vxDumpDir(dir) == before, "C02:one-error")
	tu := vxNewT("TestJ")
	call(upd, tu)
	tu.end()
	vxrt.Assert(len(tu.errors) == 0 && len(tu.logs) == 1, "C14:update-reports-updated")
	want := string(pretty.PrettyOptions([]byte(doc), &pretty.Options{SortKeys: true, Indent: " "}))
	want = want[:len(want)-1]
	if standalone {
		vxrt.Assert(vxReadFile(path) == want, "C14:stored-text-has-the-same-value")
	} else {
		got, _, err := vxRefPrev("[TestJ - 1]", path)
		vxrt.Assert(err == nil && got == want, "C14:stored-text-has-the-same-value")
		vxrt.Assert(vxReadFile(path) == vxFrame("TestZ - 1", "z")+vxFrame("TestJ - 1", want)+vxFrame("TestY - 1", "y"), "C04:file-is-exactly-the-new-frames")
	}
	tr := vxNewT("TestJ")
	call(ro, tr)
	tr.end()
	vxrt.Assert(len(tr.errors) == 0 && len(tr.logs) == 0, "C14:updated-document-replays")
}
