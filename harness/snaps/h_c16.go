//go:build verif || verif_replay

package snaps

import (
	"github.com/gkampitakis/go-snaps/internal/vxrt"
	"github.com/gkampitakis/go-snaps/match"
)

func symString(label string, n int) string {
	s := vxrt.Text(label, vxrt.Len(label+"-len", 0, n))
	for i := 0; i < len(s); i++ {
		vxrt.Assume(vxrt.And(vxrt.And(s[i] >= 0x20, s[i] < 0x7f), vxrt.And(s[i] != '"', s[i] != '\\')))
	}
	return `"` + s + `"`
}

// H_C16_mask: two inputs that differ only at masked paths store the identical
// snapshot and pass against each other; a difference at an unmasked path fails.
func H_C16_mask() {
	vxrt.CI(false)
	vxrt.EnvPresent("NO_COLOR")
	dir := vxrt.Dir()
	c := WithConfig(Dir(dir), Filename("f"))
	n := vxrt.Param("n", 1)
	// masked member m (a string, so that Type[string] is satisfied), unmasked member a
	matcherKind := vxrt.Choice("matcher", 3)
	// masked values: strings; for Any and Custom also null / number / bool (Type[string] needs strings)
	maskedVal := func(label string) string {
		if matcherKind == 1 {
			return symString(label, n)
		}
		switch vxrt.Choice(label+"-kind", 4) {
		case 0:
			return symString(label, n)
		case 1:
			return "null"
		case 2:
			return "7"
		default:
			return "false"
		}
	}
	m1, m2 := maskedVal("masked-1"), maskedVal("masked-2")
	a1 := symString("unmasked-1", n)
	a2 := a1
	sameOffMask := vxrt.Bool("same-off-mask")
	if !sameOffMask {
		a2 = symString("unmasked-2", n)
		vxrt.Assume(differs(a1, a2))
	}
	doc1 := `{"a":` + a1 + `,"m":` + m1 + `}`
	doc2 := `{"a":` + a2 + `,"m":` + m2 + `}`
	var mk func() match.JSONMatcher
	switch matcherKind {
	case 0:
		mk = func() match.JSONMatcher { return match.Any("m") }
	case 1:
		mk = func() match.JSONMatcher { return match.Type[string]("m") }
	default:
		mk = func() match.JSONMatcher {
			return match.Custom("m", func(val any) (any, error) { return "masked", nil })
		}
	}
	standalone := vxrt.Bool("standalone")
	call := func(t *mockT, doc string) {
		if standalone {
			c.MatchStandaloneJSON(t, doc, mk())
		} else {
			c.MatchJSON(t, doc, mk())
		}
	}
	t1 := newT("TestM")
	call(t1, doc1)
	t1.end()
	vxrt.Assert(len(t1.errors) == 0 && len(t1.logs) == 1, "C16:record")
	stored := dumpDir(dir)
	t2 := newT("TestM")
	call(t2, doc2)
	t2.end()
	if sameOffMask {
		vxrt.Reach("same")
		vxrt.Assert(len(t2.errors) == 0 && len(t2.logs) == 0, "C16:masked-difference-passes")
		vxrt.Assert(vxrt.Eq(dumpDir(dir), stored), "C16:masked-difference-stores-identically")
	} else {
		vxrt.Reach("different")
		vxrt.Assert(len(t2.errors) == 1, "C16:unmasked-difference-fails")
		vxrt.Assert(vxrt.Eq(dumpDir(dir), stored), "C16:failing-call-writes-nothing")
	}
}
