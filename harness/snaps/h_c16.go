//go:build verif || verif_replay

package snaps

import (
	"strings"

	"github.com/gkampitakis/go-snaps/internal/vxrt"
	"github.com/gkampitakis/go-snaps/match"
)

func vxSymString(label string, n int) string {
	s := vxrt.Text(label, vxrt.Len(label+"-len", 0, n))
	for i := 0; i < len(s); i++ {
		vxrt.Assume(vxrt.And(vxrt.And(s[i] >= 0x20, s[i] < 0x7f), vxrt.And(s[i] != '"', s[i] != '\\')))
	}
	return `"` + s + `"`
}

// H_C16_mask: two inputs that differ only at masked paths store the identical
// snapshot and pass against each other; a difference at an unmasked path fails.
func H_C16_mask() {
	vxrt.CI(false)
	vxrt.EnvPresent("NO_COLOR")
	dir := vxrt.Dir()
	c := WithConfig(Dir(dir), Filename("f"))
	n := vxrt.Param("n", 1)
	// masked member m (a string, so that Type[string] is satisfied), unmasked member a
	matcherKind := vxrt.Choice("matcher", 4)
	// masked values: strings; for Any and Custom also null / number / bool (Type[string] needs strings)
	maskedVal := func(label string) string {
		if matcherKind == 1 {
			// a masked string that itself looks like the placeholder Type writes
			if vxrt.Bool(label + "-placeholder-shaped") {
				return `"<Type:float64>"`
			}
			return vxSymString(label, n)
		}
		if matcherKind == 3 { // Type[[]any] needs lists: of any element kinds, or empty
			return []string{`["x","y"]`, `[1,2]`, `[]`, `["x",true]`, `[null]`}[vxrt.Choice(label+"-list", 5)]
		}
		switch vxrt.Choice(label+"-kind", 4) {
		case 0:
			return vxSymString(label, n)
		case 1:
			return "null"
		case 2:
			return "7"
		default:
			return "false"
		}
	}
	m1, m2 := maskedVal("masked-1"), maskedVal("masked-2")
	a1 := vxSymString("unmasked-1", n)
	a2 := a1
	sameOffMask := vxrt.Bool("same-off-mask")
	if !sameOffMask {
		a2 = vxSymString("unmasked-2", n)
		vxrt.Assume(vxDiffers(a1, a2))
	}
	doc1 := `{"a":` + a1 + `,"m":` + m1 + `}`
	doc2 := `{"a":` + a2 + `,"m":` + m2 + `}`
	// Any with two paths that differ only in letter case, both present
	caseTwin := false
	if matcherKind == 0 {
		caseTwin = vxrt.Bool("case-twin-path")
	}
	if caseTwin {
		doc1 = `{"M":` + maskedVal("masked-twin-1") + `,"a":` + a1 + `,"m":` + m1 + `}`
		doc2 = `{"M":` + maskedVal("masked-twin-2") + `,"a":` + a2 + `,"m":` + m2 + `}`
	}
	var mk func() match.JSONMatcher
	switch matcherKind {
	case 0:
		mk = func() match.JSONMatcher {
			if caseTwin {
				return match.Any("M", "m")
			}
			return match.Any("m")
		}
	case 1:
		mk = func() match.JSONMatcher { return match.Type[string]("m") }
	case 3:
		mk = func() match.JSONMatcher { return match.Type[[]any]("m") }
	default:
		mk = func() match.JSONMatcher {
			return match.Custom("m", func(val any) (any, error) { return "masked", nil })
		}
	}
	standalone := vxrt.Bool("standalone")
	call := func(t *vxMockT, doc string) {
		if standalone {
			c.MatchStandaloneJSON(t, doc, mk())
		} else {
			c.MatchJSON(t, doc, mk())
		}
	}
	t1 := vxNewT("TestM")
	call(t1, doc1)
	t1.end()
	vxrt.Assert(len(t1.errors) == 0 && len(t1.logs) == 1, "C16:record")
	stored := vxDumpDir(dir)
	t2 := vxNewT("TestM")
	call(t2, doc2)
	t2.end()
	if sameOffMask {
		vxrt.Reach("same")
		vxrt.Assert(len(t2.errors) == 0 && len(t2.logs) == 0, "C16:masked-difference-passes")
		vxrt.Assert(vxrt.Eq(vxDumpDir(dir), stored), "C16:masked-difference-stores-identically")
	} else {
		vxrt.Reach("different")
		vxrt.Assert(len(t2.errors) == 1, "C16:unmasked-difference-fails")
		vxrt.Assert(vxrt.Eq(vxDumpDir(dir), stored), "C16:failing-call-writes-nothing")
	}
}

// maskLine is a matcher (JSON and YAML interface) that replaces the second
// line of a two-line document by a fixed placeholder: the matcher interface is
// the environment boundary, so masking is "some function of the bytes".
type vxMaskLine struct{}

func (vxMaskLine) apply(b []byte) []byte {
	s := string(b)
	for i := 0; i < len(s); i++ {
		if s[i] == '\n' {
			return []byte(s[:i] + "\nm: masked")
		}
	}
	return b
}
func (m vxMaskLine) JSON(b []byte) ([]byte, []match.MatcherError) { return m.apply(b), nil }
func (m vxMaskLine) YAML(b []byte) ([]byte, []match.MatcherError) { return m.apply(b), nil }

// H_C16_update: masking also holds across an update: create (a1,m1), update
// with a changed unmasked value (a2,m2), then a normal run with (a2,m3) passes
// and a run with another unmasked value fails.
func H_C16_update() {
	vxrt.CI(false)
	vxrt.YAMLAssume(true)
	vxrt.EnvFixed("NO_COLOR", "1")
	dir := vxrt.Dir()
	plain := WithConfig(Dir(dir), Filename("f"))
	upd := WithConfig(Dir(dir), Filename("f"), Update(true))
	val := func(label string) string {
		c := vxrt.Text(label, 1)
		vxrt.Assume(vxrt.And(c[0] >= 'a', c[0] <= 'z'))
		return c
	}
	a1, a2 := val("unmasked-1"), val("unmasked-2")
	vxrt.Assume(vxDiffers(a1, a2))
	m1, m2, m3 := val("masked-1"), val("masked-2"), val("masked-3")
	doc := func(a, m string) string { return "a: " + a + "\nm: " + m }
	call := func(c *Config, t *vxMockT, d string) { c.MatchYAML(t, d, vxMaskLine{}) }
	t1 := vxNewT("TestM")
	call(plain, t1, doc(a1, m1))
	t1.end()
	vxrt.Assert(len(t1.errors) == 0 && len(t1.logs) == 1, "C16:record")
	t2 := vxNewT("TestM")
	call(upd, t2, doc(a2, m2))
	t2.end()
	vxrt.Assert(len(t2.errors) == 0 && len(t2.logs) == 1, "C16:update")
	t3 := vxNewT("TestM")
	call(plain, t3, doc(a2, m3))
	t3.end()
	vxrt.Assert(len(t3.errors) == 0 && len(t3.logs) == 0, "C16:masked-difference-passes-after-update")
	t4 := vxNewT("TestM")
	call(plain, t4, doc(a1, m3))
	t4.end()
	vxrt.Assert(len(t4.errors) == 1, "C16:unmasked-difference-fails-after-update")
}

// vxMaskMember is a YAML matcher that replaces the value of the top-level member m.
type vxMaskMember struct{}

func (vxMaskMember) YAML(b []byte) ([]byte, []match.MatcherError) {
	lines := strings.Split(string(b), "\n")
	for i, l := range lines {
		if strings.HasPrefix(l, "m: ") {
			lines[i] = "m: masked"
		}
	}
	return []byte(strings.Join(lines, "\n")), nil
}

// H_C16_blanks: an unmasked difference made of blanks only - the end of a line inside a literal
// block scalar, where spaces and tabs are part of the value - fails like any other unmasked
// difference, with and without a matcher on another member; identical documents pass.
func H_C16_blanks() {
	vxrt.CI(false)
	vxrt.YAMLAssume(true)
	vxrt.EnvFixed("NO_COLOR", "1")
	dir := vxrt.Dir()
	c := WithConfig(Dir(dir), Filename("f"))
	ends := []string{"", " ", "\t", "  ", " \t"}
	e1, e2 := ends[vxrt.Choice("line-end-1", len(ends))], ends[vxrt.Choice("line-end-2", len(ends))]
	doc := func(e, m string) string { return "sig: |\n  --" + e + "\n  John\nm: " + m }
	masked := vxrt.Bool("with-matcher")
	json := vxrt.Bool("json")
	if json {
		doc = func(e, m string) string {
			return `{"m":"` + m + `","sig":"--` + strings.ReplaceAll(e, "\t", `\t`) + `"}`
		}
	}
	call := func(t *vxMockT, d string) {
		switch {
		case json && masked:
			c.MatchJSON(t, d, match.Any("m"))
		case json:
			c.MatchJSON(t, d)
		case masked:
			c.MatchYAML(t, d, vxMaskMember{})
		default:
			c.MatchYAML(t, d)
		}
	}
	m2 := "one"
	if masked {
		m2 = "two"
	}
	t1 := vxNewT("TestM")
	call(t1, doc(e1, "one"))
	t1.end()
	vxrt.Assert(len(t1.errors) == 0 && len(t1.logs) == 1, "C16:record")
	t2 := vxNewT("TestM")
	call(t2, doc(e2, m2))
	t2.end()
	if e1 == e2 {
		vxrt.Assert(len(t2.errors) == 0 && len(t2.logs) == 0, "C16:masked-difference-passes")
	} else {
		vxrt.Assert(len(t2.errors) == 1, "C16:unmasked-difference-fails")
	}
}
