//go:build verif || verif_replay

package snaps

import (
	"strconv"

	"github.com/gkampitakis/go-snaps/internal/vxrt"
)

// H_C03_addressing: the k-th call of an execution of test N addresses slot
// (N, k), whatever ran before; a failing call still consumes its ordinal;
// a new execution starts at 1 again.
func H_C03_addressing() {
	vxrt.CI(false)
	dir := vxrt.Dir()
	c := WithConfig(Dir(dir), Filename("f"), Update(false))
	path := dir + "/f.snap"

	// two test names drawn from a pool with prefix relations
	pool := []string{"TestA", "TestA/b", "TestAB", "TestA/b/c"}
	nameX := pool[vxrt.Choice("nameX", len(pool))]
	nameY := pool[vxrt.Choice("nameY", len(pool))]

	// history: some executions of X and Y before, with arbitrary numbers of calls (incl. > 9)
	for _, nm := range []string{nameX, nameY} {
		pre := vxrt.Len("pre-calls", 0, vxrt.Param("pre", 2))
		t0 := newT(nm)
		for k := 0; k < pre; k++ {
			c.MatchSnapshot(t0, "v")
		}
		t0.end()
	}

	// the execution under observation: calls of X interleaved with calls of Y
	calls := vxrt.Len("calls", 1, vxrt.Param("calls", 3))
	tx, ty := newT(nameX), newT(nameY)
	kx, ky := 0, 0
	for k := 0; k < calls; k++ {
		who := vxrt.Choice("who", 2)
		t := tx
		if who == 1 {
			t = ty
		}
		if nameX == nameY {
			t = tx
			who = 0
		}
		if who == 0 {
			kx++
		} else {
			ky++
		}
		want := kx
		if who == 1 {
			want = ky
		}
		// value: either what is stored for that slot, or something else (a failing call)
		val := "v"
		if vxrt.Bool("mismatch") {
			val = "w"
		}
		before := len(t.errors) + len(t.logs)
		c.MatchSnapshot(t, val)
		_ = before
		// the slot addressed is observable through the file: after the call the entry exists
		id := "[" + t.name + " - " + strconv.Itoa(want) + "]"
		got, _, err := getPrevSnapshot(id, path)
		_ = got
		vxrt.Assert(err == nil || len(t.errors) > 0, "C03:kth-call-addresses-slot-k")
		vxrt.Assert(testsRegistry.running[path][t.name] == want, "C03:ordinal-is-call-index")
	}
	tx.end()
	ty.end()
	vxrt.Assert(testsRegistry.running[path][nameX] == 0 && testsRegistry.running[path][nameY] == 0, "C03:ordinal-reset-at-end")
	// a re-execution starts at 1
	t3 := newT(nameX)
	c.MatchSnapshot(t3, "v")
	vxrt.Assert(testsRegistry.running[path][nameX] == 1, "C03:re-execution-starts-at-1")
	if nameX != nameY {
		vxrt.Assert(testsRegistry.running[path][nameY] == 0, "C03:other-test-untouched")
	}
	t3.end()
}

// H_C03_isolation: creating or rewriting one slot never changes what any
// other slot replays as, nor reorders or drops pre-existing entries.
func H_C03_isolation() {
	vxrt.CI(false)
	dir := vxrt.Dir()
	path := dir + "/f.snap"
	os_MkdirAll(dir)
	k := vxrt.Len("frames", 0, vxrt.Param("frames", 2))
	n := vxrt.Param("n", 3)
	ids := []string{"TestA - 1", "TestB - 1", "TestA - 2"}
	bodies := make([]string, k)
	content := ""
	for i := 0; i < k; i++ {
		bodies[i] = vxrt.Text("body", vxrt.Len("body-len", 0, n))
		vxrt.Assume(noCRAtEOL(bodies[i]))
		vxrt.Assume(noTerminatorLine(bodies[i]))
		content += frame(ids[i], bodies[i])
	}
	writeFile(path, content)

	// one operation: add a new id, or update an existing one
	newBody := vxrt.Text("new", vxrt.Len("new-len", 0, n))
	vxrt.Assume(noCRAtEOL(newBody))
	vxrt.Assume(noTerminatorLine(newBody))
	target := vxrt.Choice("target", k+1)
	if target == k {
		vxrt.Reach("add")
		err := addNewSnapshot("[TestC - 1]", newBody, path)
		vxrt.Assert(err == nil, "C03:add-succeeds")
	} else {
		vxrt.Reach("update")
		err := updateSnapshot("["+ids[target]+"]", newBody, path)
		vxrt.Assert(err == nil, "C03:update-succeeds")
	}
	for i := 0; i < k; i++ {
		if i == target {
			continue
		}
		got, _, err := getPrevSnapshot("["+ids[i]+"]", path)
		vxrt.Assert(err == nil, "C03:other-entry-still-found")
		vxrt.Assert(vxrt.Eq(got, bodies[i]), "C03:other-entry-value-unchanged")
	}
	if target == k {
		got, _, err := getPrevSnapshot("[TestC - 1]", path)
		vxrt.Assert(err == nil && vxrt.Eq(got, newBody), "C03:new-entry-replays")
	} else {
		got, _, err := getPrevSnapshot("["+ids[target]+"]", path)
		vxrt.Assert(err == nil && vxrt.Eq(got, newBody), "C03:updated-entry-replays")
	}
	// the file is exactly the frames in their original order (target replaced / new appended)
	want := ""
	for i := 0; i < k; i++ {
		if i == target {
			want += frame(ids[i], newBody)
		} else {
			want += frame(ids[i], bodies[i])
		}
	}
	if target == k {
		want += frame("TestC - 1", newBody)
	}
	vxrt.Assert(vxrt.Eq(readFile(path), want), "C03:file-is-frames-in-order")
}
