//go:build verif || verif_replay

package snaps

import (
	"strconv"

	"github.com/gkampitakis/go-snaps/internal/vxrt"
	"github.com/gkampitakis/go-snaps/match"
)

// H_C03_addressing: the k-th call of an execution of test N addresses slot
// (N, k), whatever ran before or runs in between (other tests with
// prefix-related names starting, calling and finishing); a failing call -
// mismatch, invalid JSON, matcher error - still consumes its ordinal; a new
// execution starts at 1 again.
func H_C03_addressing() {
	vxrt.CI(false)
	vxrt.EnvFixed("NO_COLOR", "1")
	dir := vxrt.Dir()
	c := WithConfig(Dir(dir), Filename("f"))
	path := dir + "/f.snap"

	pool := []string{"TestA", "TestA/b", "TestAB", "TestA/b/c"}
	names := [2]string{pool[vxrt.Choice("nameX", len(pool))], pool[vxrt.Choice("nameY", len(pool))]}
	vxrt.Assume(names[0] != names[1])

	// history: earlier executions with arbitrary numbers of calls (incl. > 9)
	for _, nm := range names {
		pre := []int{0, vxrt.Param("pre", 2)}[vxrt.Choice("pre-calls", 2)]
		t0 := vxNewT(nm)
		for k := 0; k < pre; k++ {
			c.MatchSnapshot(t0, "v")
		}
		t0.end()
	}

	ts := [2]*vxMockT{vxNewT(names[0]), vxNewT(names[1])}
	ord := [2]int{0, 0}
	steps := vxrt.Len("steps", 1, vxrt.Param("steps", 3))
	for s := 0; s < steps; s++ {
		w := vxrt.Choice("who", 2)
		o := 1 - w
		switch vxrt.Choice("action", 6) {
		case 5: // a call whose slot is missing while creation is not allowed: fails, keeps its ordinal
			cNo := WithConfig(Dir(dir), Filename("f"), Update(false))
			cNo.MatchSnapshot(ts[w], "v")
			ord[w]++
		case 0: // a passing or creating call
			ts[w].errors = nil
			c.MatchSnapshot(ts[w], "v")
			ord[w]++
			if len(ts[w].errors) == 0 {
				_, _, err := vxRefPrev("["+names[w]+" - "+strconv.Itoa(ord[w])+"]", path)
				vxrt.Assert(err == nil, "C03:kth-call-addresses-slot-k")
			}
		case 1: // a mismatching call (fails unless the slot is new)
			c.MatchSnapshot(ts[w], "w")
			ord[w]++
		case 2: // invalid JSON: fails before anything is compared
			c.MatchJSON(ts[w], "{")
			ord[w]++
		case 3: // a matcher error
			c.MatchJSON(ts[w], `{"a":1}`, &vxEnvMatcher{errs: []match.MatcherError{{Reason: vxErrEnv, Matcher: "Any", Path: "p"}}})
			ord[w]++
		default: // this test's execution ends; a new one begins
			ts[w].end()
			ts[w] = vxNewT(names[w])
			ord[w] = 0
		}
		vxrt.Assert(testsRegistry.running[path][names[w]] == ord[w], "C03:ordinal-is-call-index")
		vxrt.Assert(testsRegistry.running[path][names[o]] == ord[o], "C03:other-test-ordinal-untouched")
	}
	ts[0].end()
	ts[1].end()
	vxrt.Assert(testsRegistry.running[path][names[0]] == 0 && testsRegistry.running[path][names[1]] == 0, "C03:ordinal-reset-at-end")
	t3 := vxNewT(names[0])
	c.MatchSnapshot(t3, "v")
	vxrt.Assert(testsRegistry.running[path][names[0]] == 1, "C03:re-execution-starts-at-1")
	t3.end()
}

// H_C03_isolation: creating or rewriting one slot never changes what any
// other slot replays as, nor reorders or drops pre-existing entries.
func H_C03_isolation() {
	vxrt.CI(false)
	vxCalibrateStorage()
	dir := vxrt.Dir()
	path := dir + "/f.snap"
	vxOs_MkdirAll(dir)
	k := vxrt.Len("frames", 0, vxrt.Param("frames", 2))
	n := vxrt.Param("n", 3)
	ids := []string{"TestA - 1", "TestB - 1", "TestA - 2"}
	bodies := make([]string, k)
	content := ""
	for i := 0; i < k; i++ {
		bodies[i] = vxrt.Text("body", vxrt.Len("body-len", 0, n))
		vxrt.Assume(vxNoCRAtEOL(bodies[i]))
		vxrt.Assume(vxNoTerminatorLine(bodies[i]))
		content += vxFrame(ids[i], bodies[i])
	}
	vxWriteFile(path, content)

	// one operation: add a new id, or update an existing one
	newBody := vxrt.Text("new", vxrt.Len("new-len", 0, n))
	vxrt.Assume(vxNoCRAtEOL(newBody))
	vxrt.Assume(vxNoTerminatorLine(newBody))
	target := vxrt.Choice("target", k+1)
	if target == k {
		vxrt.Reach("add")
		err := addNewSnapshot("[TestC - 1]", newBody, path)
		vxrt.Assert(err == nil, "C03:add-succeeds")
	} else {
		vxrt.Reach("update")
		err := updateSnapshot("["+ids[target]+"]", newBody, path)
		vxrt.Assert(err == nil, "C03:update-succeeds")
	}
	for i := 0; i < k; i++ {
		if i == target {
			continue
		}
		got, _, err := vxRefPrev("["+ids[i]+"]", path)
		vxrt.Assert(err == nil, "C03:other-entry-still-found")
		vxrt.Assert(vxrt.Eq(got, bodies[i]), "C03:other-entry-value-unchanged")
	}
	if target == k {
		got, _, err := vxRefPrev("[TestC - 1]", path)
		vxrt.Assert(err == nil && vxrt.Eq(got, newBody), "C03:new-entry-replays")
	} else {
		got, _, err := vxRefPrev("["+ids[target]+"]", path)
		vxrt.Assert(err == nil && vxrt.Eq(got, newBody), "C03:updated-entry-replays")
	}
	// the file is exactly the frames in their original order (target replaced / new appended)
	want := ""
	for i := 0; i < k; i++ {
		if i == target {
			want += vxFrame(ids[i], newBody)
		} else {
			want += vxFrame(ids[i], bodies[i])
		}
	}
	if target == k {
		want += vxFrame("TestC - 1", newBody)
	}
	vxrt.Assert(vxrt.Eq(vxReadFile(path), want), "C03:file-is-frames-in-order")
}

// H_C03_lookalike: an earlier entry whose body has a line that merely contains or ends with
// another slot's header (not a whole line equal to it: that is known finding K2) does not
// capture that slot; and two spellings of the same directory address the same file and share
// the ordinals.
func H_C03_lookalike() {
	vxrt.CI(false)
	vxrt.EnvFixed("NO_COLOR", "1")
	dir := vxrt.Dir()
	path := dir + "/f.snap"
	decoy := []string{"see [TestB - 1]", " [TestB - 1]", "[TestB - 1] x", "[TestB - 10]", "x[TestB - 1]", "[TestB - 1", "TestB - 1]"}[vxrt.Choice("decoy-line", 7)]
	bodyA := "first\n" + decoy + "\nnot-b"
	vxWriteFile(path, vxFrame("TestA - 1", bodyA)+vxFrame("TestB - 1", "vb")+vxFrame("TestB - 2", "vb2"))
	before := vxReadFile(path)
	spell := []string{dir, dir + "/", dir + "/.", dir + "/x/.."}
	c1 := WithConfig(Dir(spell[0]), Filename("f"), Update(false))
	c2 := WithConfig(Dir(spell[vxrt.Choice("second-spelling", 4)]), Filename("f"), Update(false))
	ta, tb := vxNewT("TestA"), vxNewT("TestB")
	c1.MatchSnapshot(tb, "vb")
	c2.MatchSnapshot(tb, "vb2")
	c2.MatchSnapshot(ta, bodyA)
	ta.end()
	tb.end()
	vxrt.Assert(len(tb.errors) == 0 && len(tb.logs) == 0, "C03:kth-call-addresses-slot-k")
	vxrt.Assert(len(ta.errors) == 0 && len(ta.logs) == 0, "C03:other-entry-value-unchanged")
	vxrt.Assert(vxReadFile(path) == before, "C03:file-unchanged-by-passing-calls")
}

// H_C03_mention: a slot that does not exist yet is created even when an earlier entry's body
// mentions its header inside a line ("needs: [TestB - 1]"); afterwards both slots replay.
func H_C03_mention() {
	vxrt.CI(false)
	vxrt.YAMLAssume(true)
	vxrt.EnvFixed("NO_COLOR", "1")
	dir := vxrt.Dir()
	path := dir + "/f.snap"
	mention := []string{"needs: [TestB - 1]", "see [TestB - 1] below", "[TestB - 1] and more", `"[TestB - 1]"`}[vxrt.Choice("mention", 4)]
	bodyA := "first: 1\n" + mention + "\nlast: 2"
	vxWriteFile(path, vxFrame("TestA - 1", bodyA))
	c := WithConfig(Dir(dir), Filename("f"))
	api := vxrt.Choice("api", 2) // MatchSnapshot, MatchYAML
	call := func(t *vxMockT, v string) {
		if api == 0 {
			c.MatchSnapshot(t, v)
		} else {
			c.MatchYAML(t, v)
		}
	}
	tb := vxNewT("TestB")
	call(tb, "b: new")
	tb.end()
	vxrt.Assert(len(tb.errors) == 0 && len(tb.logs) == 1, "C03:new-entry-recorded")
	got, _, err := vxRefPrev("[TestB - 1]", path)
	vxrt.Assert(err == nil && got == "b: new", "C03:new-entry-replays")
	ta, tb2 := vxNewT("TestA"), vxNewT("TestB")
	call(ta, bodyA)
	call(tb2, "b: new")
	ta.end()
	tb2.end()
	vxrt.Assert(len(ta.errors)+len(tb2.errors) == 0 && len(ta.logs)+len(tb2.logs) == 0, "C03:other-entry-value-unchanged")
	// the mentioned slot is then updated: the new value lands in that slot, the mentioning entry stays as it was
	cu := WithConfig(Dir(dir), Filename("f"), Update(true))
	tb3 := vxNewT("TestB")
	if api == 0 {
		cu.MatchSnapshot(tb3, "b: newer")
	} else {
		cu.MatchYAML(tb3, "b: newer")
	}
	tb3.end()
	vxrt.Assert(len(tb3.errors) == 0, "C03:update-succeeds")
	vxrt.Assert(vxReadFile(path) == vxFrame("TestA - 1", bodyA)+vxFrame("TestB - 1", "b: newer"), "C03:updated-entry-replays")
}
