//go:build verif || verif_replay

package snaps

import (
	"github.com/gkampitakis/go-snaps/internal/vxrt"
)

// differs: a != b as one term (lengths are concrete).
func differs(a, b string) bool { return vxrt.Not(vxrt.Eq(a, b)) }

// H_C02_snapshot: a stored text F0 and a different received text F1, updating
// not enabled: exactly one Error, no Log, nothing written.
func H_C02_snapshot() {
	vxrt.CI(false)
	vxrt.EnvPresent("NO_COLOR")
	dir := vxrt.Dir()
	c := WithConfig(Dir(dir), Filename("f"))
	n := vxrt.Param("n", 3)
	f0 := vxrt.Text("stored", vxrt.Len("n0", vxrt.Param("n0lo", 0), vxrt.Param("n0hi", n)))
	f1 := vxrt.Text("received", vxrt.Len("n1", vxrt.Param("n1lo", 0), vxrt.Param("n1hi", n)))
	vxrt.Assume(vxrt.And(noCRAtEOL(f0), noCRAtEOL(f1)))
	vxrt.Assume(vxrt.And(plainText(f0), plainText(f1)))
	vxrt.Assume(differs(f0, f1))
	if vxrt.Param("ascii", 0) == 1 {
		vxrt.Assume(vxrt.And(asciiOnly(f0), asciiOnly(f1)))
	}
	if vxrt.Param("known_K1", 1) == 1 {
		vxrt.Assume(vxrt.Not(k1EscapeAlias(f0, f1)))
	}

	t1 := newT("TestA")
	c.MatchSnapshot(t1, f0)
	t1.end()
	vxrt.Assert(len(t1.errors) == 0 && len(t1.logs) == 1, "C02:record")
	stamp := vxrt.FSStamp()
	before := dumpDir(dir)
	erredBefore := testEvents.items[erred]

	t2 := newT("TestA")
	c.MatchSnapshot(t2, f1)
	t2.end()
	vxrt.Assert(len(t2.errors) == 1, "C02:one-error")
	vxrt.Assert(len(t2.logs) == 0, "C02:no-log")
	vxrt.Assert(vxrt.FSStamp() == stamp, "C02:no-write")
	vxrt.Assert(vxrt.Eq(dumpDir(dir), before), "C02:dir-unchanged")
	vxrt.Assert(testEvents.items[erred] == erredBefore+1, "C02:erred-counter")
}

// H_C02_struct: line-structured stored and received texts (see structText).
func H_C02_struct() {
	vxrt.CI(false)
	vxrt.YAMLAssume(true)
	vxrt.EnvPresent("NO_COLOR")
	dir := vxrt.Dir()
	c := WithConfig(Dir(dir), Filename("f"))
	k := vxrt.Param("lines", 2)
	f0 := structText("stored", k)
	f1 := structText("received", k)
	vxrt.Assume(differs(f0, f1))
	if vxrt.Param("known_K1", 1) == 1 {
		vxrt.Assume(vxrt.Not(k1EscapeAlias(f0, f1)))
	}
	kind := vxrt.Choice("kind", 2)
	t1 := newT("TestA")
	doCall(c, t1, kind, f0)
	t1.end()
	vxrt.Assert(len(t1.errors) == 0 && len(t1.logs) == 1, "C02:record")
	stamp := vxrt.FSStamp()
	t2 := newT("TestA")
	doCall(c, t2, kind, f1)
	t2.end()
	vxrt.Assert(len(t2.errors) == 1, "C02:one-error")
	vxrt.Assert(len(t2.logs) == 0, "C02:no-log")
	vxrt.Assert(vxrt.FSStamp() == stamp, "C02:no-write")
}

// H_C02_standalone: a standalone snapshot and a received value that differ in
// any byte (a trailing newline, a CR, ...): exactly one Error, nothing written.
func H_C02_standalone() {
	vxrt.CI(false)
	vxrt.EnvPresent("NO_COLOR")
	dir := vxrt.Dir()
	c := WithConfig(Dir(dir))
	n := vxrt.Param("n", 3)
	f0 := vxrt.Text("stored", vxrt.Len("n0", 0, n))
	f1 := vxrt.Text("received", vxrt.Len("n1", 0, n))
	vxrt.Assume(vxrt.And(plainText(f0), plainText(f1)))
	vxrt.Assume(vxrt.And(asciiOnly(f0), asciiOnly(f1)))
	vxrt.Assume(differs(f0, f1))
	writeFile(dir+"/TestS_1.snap", f0)
	stamp := vxrt.FSStamp()
	t := newT("TestS")
	c.MatchStandaloneSnapshot(t, f1)
	t.end()
	vxrt.Assert(len(t.errors) == 1, "C02:one-error")
	vxrt.Assert(len(t.logs) == 0, "C02:no-log")
	vxrt.Assert(vxrt.FSStamp() == stamp, "C02:no-write")
	vxrt.Assert(vxrt.Eq(readFile(dir+"/TestS_1.snap"), f0), "C02:file-unchanged")
}

// k1EscapeAlias is the class of known finding K1: the two texts become equal
// when every whole line "/-/-/-/" is read as "---" (the escape token is itself
// a legal line, and comparison happens after unescaping both sides).
func k1EscapeAlias(a, b string) bool {
	return vxrt.Eq(unescapeRef(a), unescapeRef(b))
}

// unescapeRef is the harness's own statement of "map whole lines /-/-/-/ to ---".
func unescapeRef(s string) string {
	out := ""
	line := ""
	for i := 0; i <= len(s); i++ {
		if i == len(s) || s[i] == '\n' {
			if line == "/-/-/-/" {
				line = "---"
			}
			out += line
			if i < len(s) {
				out += "\n"
			}
			line = ""
			continue
		}
		line += s[i : i+1]
	}
	return out
}
