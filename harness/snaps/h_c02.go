//go:build verif || verif_replay

package snaps

import (
	"github.com/gkampitakis/go-snaps/internal/vxrt"
	"github.com/gkampitakis/go-snaps/match"
)

// H_C02_snapshot: a stored text F0 and a different received text F1, updating
// not enabled: exactly one Error, no Log, nothing written.
func H_C02_snapshot() {
	vxrt.CI(false)
	vxrt.EnvPresent("NO_COLOR")
	dir := vxrt.Dir()
	c := WithConfig(Dir(dir), Filename("f"))
	n := vxrt.Param("n", 3)
	f0 := vxrt.Text("stored", vxrt.Len("n0", vxrt.Param("n0lo", 0), vxrt.Param("n0hi", n)))
	f1 := vxrt.Text("received", vxrt.Len("n1", vxrt.Param("n1lo", 0), vxrt.Param("n1hi", n)))
	vxrt.Assume(vxrt.And(vxNoCRAtEOL(f0), vxNoCRAtEOL(f1)))
	vxrt.Assume(vxrt.And(vxPlainText(f0), vxPlainText(f1)))
	vxrt.Assume(vxDiffers(f0, f1))
	if vxrt.Param("ascii", 0) == 1 {
		vxrt.Assume(vxrt.And(vxAsciiOnly(f0), vxAsciiOnly(f1)))
	}
	if vxrt.Param("known_K1", 1) == 1 {
		vxrt.Assume(vxrt.Not(vxK1EscapeAlias(f0, f1)))
	}

	t1 := vxNewT("TestA")
	c.MatchSnapshot(t1, f0)
	t1.end()
	vxrt.Assert(len(t1.errors) == 0 && len(t1.logs) == 1, "C02:record")
	stamp := vxrt.FSStamp()
	before := vxDumpDir(dir)
	erredBefore := testEvents.items[erred]

	t2 := vxNewT("TestA")
	c.MatchSnapshot(t2, f1)
	t2.end()
	vxrt.Assert(len(t2.errors) == 1, "C02:one-error")
	vxrt.Assert(len(t2.logs) == 0, "C02:no-log")
	vxrt.Assert(vxrt.FSStamp() == stamp, "C02:no-write")
	vxrt.Assert(vxrt.Eq(vxDumpDir(dir), before), "C02:dir-unchanged")
	vxrt.Assert(testEvents.items[erred] == erredBefore+1, "C02:erred-counter")
}

// H_C02_struct: line-structured stored and received texts (see structText).
func H_C02_struct() {
	vxrt.CI(false)
	vxrt.YAMLAssume(true)
	vxrt.EnvPresent("NO_COLOR")
	dir := vxrt.Dir()
	c := WithConfig(Dir(dir), Filename("f"))
	k := vxrt.Param("lines", 2)
	f0 := vxStructText("stored", k)
	f1 := vxStructText("received", k)
	vxrt.Assume(vxDiffers(f0, f1))
	if vxrt.Param("known_K1", 1) == 1 {
		vxrt.Assume(vxrt.Not(vxK1EscapeAlias(f0, f1)))
	}
	kind := vxrt.Choice("kind", 2)
	t1 := vxNewT("TestA")
	vxDoCall(c, t1, kind, f0)
	t1.end()
	vxrt.Assert(len(t1.errors) == 0 && len(t1.logs) == 1, "C02:record")
	stamp := vxrt.FSStamp()
	t2 := vxNewT("TestA")
	vxDoCall(c, t2, kind, f1)
	t2.end()
	vxrt.Assert(len(t2.errors) == 1, "C02:one-error")
	vxrt.Assert(len(t2.logs) == 0, "C02:no-log")
	vxrt.Assert(vxrt.FSStamp() == stamp, "C02:no-write")
}

// H_C02_standalone: a standalone snapshot and a received value that differ in
// any byte (a trailing newline, a CR, ...): exactly one Error, nothing written.
func H_C02_standalone() {
	vxrt.CI(false)
	vxrt.EnvPresent("NO_COLOR")
	dir := vxrt.Dir()
	c := WithConfig(Dir(dir))
	n := vxrt.Param("n", 3)
	f0 := vxrt.Text("stored", vxrt.Len("n0", 0, n))
	f1 := vxrt.Text("received", vxrt.Len("n1", 0, n))
	vxrt.Assume(vxrt.And(vxPlainText(f0), vxPlainText(f1)))
	vxrt.Assume(vxrt.And(vxAsciiOnly(f0), vxAsciiOnly(f1)))
	vxrt.Assume(vxDiffers(f0, f1))
	vxWriteFile(dir+"/TestS_1.snap", f0)
	stamp := vxrt.FSStamp()
	t := vxNewT("TestS")
	c.MatchStandaloneSnapshot(t, f1)
	t.end()
	vxrt.Assert(len(t.errors) == 1, "C02:one-error")
	vxrt.Assert(len(t.logs) == 0, "C02:no-log")
	vxrt.Assert(vxrt.FSStamp() == stamp, "C02:no-write")
	vxrt.Assert(vxrt.Eq(vxReadFile(dir+"/TestS_1.snap"), f0), "C02:file-unchanged")
}

// H_C02_json: a stored JSON entry that differs from the received document's stored form in any
// way - a value, or only its layout (indentation, key order, spacing) - fails exactly once and
// nothing is written: the comparison is on the stored bytes.
func H_C02_json() {
	vxrt.CI(false)
	vxrt.EnvPresent("NO_COLOR")
	dir := vxrt.Dir()
	c := WithConfig(Dir(dir), Filename("f"))
	stored := []string{
		"{\n    \"a\": 1,\n    \"b\": \"x\"\n}", // four-space indent
		"{\"a\":1,\"b\":\"x\"}",                 // compact
		"{\n \"b\": \"x\",\n \"a\": 1\n}",       // other member order
		"{\n \"a\": 2,\n \"b\": \"x\"\n}",       // other value
		"{\n \"a\": 1,\n \"b\": \"x\"\n}\n",     // canonical plus a final newline
	}[vxrt.Choice("stored-form", 5)]
	standalone := vxrt.Bool("standalone")
	path := dir + "/f.snap"
	if standalone {
		path = dir + "/f_1.snap.json"
		vxWriteFile(path, stored)
	} else {
		vxWriteFile(path, vxFrame("TestJ - 1", stored))
	}
	before := vxReadFile(path)
	stamp := vxrt.FSStamp()
	t := vxNewT("TestJ")
	if standalone {
		c.MatchStandaloneJSON(t, `{"a":1,"b":"x"}`)
	} else {
		c.MatchJSON(t, `{"a":1,"b":"x"}`)
	}
	t.end()
	vxrt.Assert(len(t.errors) == 1, "C02:one-error")
	vxrt.Assert(len(t.logs) == 0, "C02:no-log")
	vxrt.Assert(vxrt.FSStamp() == stamp && vxReadFile(path) == before, "C02:no-write")
}

// H_C02_ansi: texts that differ only inside terminal escape sequences (a red versus a green
// word) are different texts, with colours on or off.
func H_C02_ansi() {
	vxrt.CI(false)
	vxrt.EnvPresent("NO_COLOR")
	dir := vxrt.Dir()
	c := WithConfig(Dir(dir), Filename("f"))
	frag := []string{"\x1b[31mERROR\x1b[0m", "\x1b[32mERROR\x1b[0m", "ERROR", "\x1b[1;31mERROR\x1b[0m done", "\x1b[2K"}
	a := frag[vxrt.Choice("stored", len(frag))]
	b := frag[vxrt.Choice("received", len(frag))]
	vxrt.Assume(a != b)
	if vxrt.Bool("more-lines") {
		a, b = "head\n"+a+"\ntail", "head\n"+b+"\ntail"
	}
	vxWriteFile(dir+"/f.snap", vxFrame("TestA - 1", a))
	stamp := vxrt.FSStamp()
	t := vxNewT("TestA")
	c.MatchSnapshot(t, b)
	t.end()
	vxrt.Assert(len(t.errors) == 1, "C02:one-error")
	vxrt.Assert(len(t.logs) == 0, "C02:no-log")
	vxrt.Assert(vxrt.FSStamp() == stamp, "C02:no-write")
}

// H_C02_afterinvalid: the call after a rejected one (invalid JSON, or a failing matcher) is still
// compared with its own slot: slot 2 holds another value than the one received, so it fails once,
// although slot 1 holds exactly the received value.
func H_C02_afterinvalid() {
	vxrt.CI(false)
	vxrt.EnvFixed("NO_COLOR", "1")
	vxrt.EnvFixed("UPDATE_SNAPS", "")
	dir := vxrt.Dir()
	path := dir + "/f.snap"
	content := vxFrame("TestJ - 1", "{\n \"v\": 1\n}") + vxFrame("TestJ - 2", "{\n \"v\": 2\n}") + vxFrame("TestJ - 3", "{\n \"v\": 1\n}")
	vxWriteFile(path, content)
	c := WithConfig(Dir(dir), Filename("f"))
	t := vxNewT("TestJ")
	if vxrt.Bool("matcher-error") {
		c.MatchJSON(t, `{"v":1}`, match.Any("missing"))
	} else {
		c.MatchJSON(t, `{"v":`)
	}
	vxrt.Assert(len(t.errors) == 1, "C17:matcher-failure-fails-once")
	t.errors = nil
	c.MatchJSON(t, `{"v":1}`)
	vxrt.Assert(len(t.errors) == 1 && len(t.logs) == 0, "C02:one-error")
	t.errors = nil
	c.MatchJSON(t, `{"v":1}`)
	vxrt.Assert(len(t.errors) == 0 && len(t.logs) == 0, "C03:kth-call-addresses-slot-k")
	t.end()
	vxrt.Assert(vxReadFile(path) == content, "C02:no-write")
}
