//go:build verif || verif_replay

package snaps

import (
	"bytes"
	"encoding/json"
	"errors"
	"fmt"
	"os"
	"path/filepath"
	"reflect"
	"regexp"
	"slices"
	"sort"
	"strconv"
	"strings"
	"sync"
	"sync/atomic"

	"github.com/gkampitakis/go-snaps/internal/vxrt"
	"github.com/tidwall/gjson"
)

// pinned returns a string whose bytes are symbolic but constrained to equal
// want: the engine has to take its symbolic code paths (interpreted library
// code, intrinsics, fmt summary) while the answer is known.
func vxPinned(want string) string {
	s := vxrt.Text("pinned", len(want))
	vxrt.Assume(vxrt.Eq(s, want))
	return s
}

// H_selftest: differential test of the engine's treatment of library
// functions: every function is applied to a pinned-symbolic argument (symbolic
// path) and to the same concrete literal (host function), and the results must
// agree. Run by setup.sh and by `./check selftest`.
func H_selftest() {
	texts := []string{"", "a", "a\nb", "\n", "--- \n---", "x\r\ny\n", "[TestA - 1]", "/-/-/-/\n\n", "αβ\xff", "100%d"}
	which := vxrt.Choice("text", len(texts))
	c := texts[which]
	s := vxPinned(c)
	eq := func(label string, got, want any) {
		vxrt.Assert(fmt.Sprint(got) == fmt.Sprint(want), "selftest:"+label)
	}
	eq("Split", strings.Join(strings.Split(s, "\n"), "|"), strings.Join(strings.Split(c, "\n"), "|"))
	eq("SplitAfter", strings.Join(strings.SplitAfter(s, "\n"), "|"), strings.Join(strings.SplitAfter(c, "\n"), "|"))
	eq("Index", strings.Index(s, "\n"), strings.Index(c, "\n"))
	eq("IndexLong", strings.Index(s, "---"), strings.Index(c, "---"))
	eq("Contains", strings.Contains(s, " - "), strings.Contains(c, " - "))
	eq("HasPrefix", strings.HasPrefix(s, "[Test"), strings.HasPrefix(c, "[Test"))
	eq("HasSuffix", strings.HasSuffix(s, "\n"), strings.HasSuffix(c, "\n"))
	eq("TrimSuffix", strings.TrimSuffix(s, "\n"), strings.TrimSuffix(c, "\n"))
	eq("TrimSpace", strings.TrimSpace(s), strings.TrimSpace(c))
	eq("ReplaceAll", strings.ReplaceAll(s, "/", "_"), strings.ReplaceAll(c, "/", "_"))
	eq("Count", strings.Count(s, "-"), strings.Count(c, "-"))
	eq("Repeat", strings.Repeat(s, 2), strings.Repeat(c, 2))
	eq("LastIndex", strings.LastIndex(s, "-"), strings.LastIndex(c, "-"))
	eq("bytes.Equal", bytes.Equal([]byte(s), []byte("---")), bytes.Equal([]byte(c), []byte("---")))
	eq("bytes.Index", bytes.Index([]byte(s), []byte(" - ")), bytes.Index([]byte(c), []byte(" - ")))
	eq("bytes.HasPrefix", bytes.HasPrefix([]byte(s), []byte("[Test")), bytes.HasPrefix([]byte(c), []byte("[Test")))
	eq("runes", len([]rune(s)), len([]rune(c)))
	eq("runes-roundtrip", string([]rune(s)), string([]rune(c)))
	eq("compare", s < "b", c < "b")
	eq("Sprintf-s", fmt.Sprintf("[%s - %d]", s, 12), fmt.Sprintf("[%s - %d]", c, 12))
	eq("Sprintf-v", fmt.Sprintf("%v|%v|%v|%T", s, 7, true, s), fmt.Sprintf("%v|%v|%v|%T", c, 7, true, c))
	eq("Sprintf-format", fmt.Sprintf(s, 3), fmt.Sprintf(c, 3))
	eq("Sprint", fmt.Sprint(s, 1, 2, "x"), fmt.Sprint(c, 1, 2, "x"))
	eq("Sprintln", fmt.Sprintln(s, 1), fmt.Sprintln(c, 1))
	eq("Errorf", fmt.Errorf("wrap %s: %w", s, errSnapNotFound).Error(), fmt.Errorf("wrap %s: %w", c, errSnapNotFound).Error())
	var sb strings.Builder
	sb.WriteString(s)
	sb.WriteByte('\n')
	sb.Write([]byte(s))
	eq("Builder", sb.String(), c+"\n"+c)
	var bb bytes.Buffer
	bb.WriteString(s)
	bb.WriteByte('!')
	eq("Buffer", bb.String(), c+"!")
	eq("Itoa", strconv.Itoa(len(s)), strconv.Itoa(len(c)))
	// file paths (no NUL / separator surprises in these inputs)
	if which == 1 || which == 6 {
		eq("Join", filepath.Join("/d", s, "x"), filepath.Join("/d", c, "x"))
		eq("Base", filepath.Base("/d/"+s), filepath.Base("/d/"+c))
		eq("Ext", filepath.Ext(s+".snap"), filepath.Ext(c+".snap"))
		eq("Dir", filepath.Dir("/d/e/"+s), filepath.Dir("/d/e/"+c))
	}
	// go-snaps' own helpers on both
	eq("escape", escapeEndChars(s), escapeEndChars(c))
	eq("unescape", unescapeEndChars(s), unescapeEndChars(c))
	_, okS := getTestID([]byte(s))
	_, okC := getTestID([]byte(c))
	eq("getTestID", okS, okC)
	eq("isSingleline", isSingleline(s), isSingleline(c))
}

// H_selftest_regexp: the symbolic regular-expression matcher (NFA simulation over
// terms) against the host's regexp package: pinned-symbolic subjects must give the
// host's answer, and for free 3-byte ASCII subjects the answer must equal a
// hand-written predicate.
func H_selftest_regexp() {
	pats := []string{`^Test[A-Z]\w*$`, `a+b`, `^\[(Test[\w/#.-]* - \d+)\]$`, `\bx\b`, `(?i)^fuzz`, `^(Test|Benchmark)A/sub$`, `[^a-c]$`, `^$`, `x*`, `(ab|a)(c|bcd)$`}
	texts := []string{"", "TestA", "testA", "[TestA/x - 12]", "[TestA - ]", "a x b", "axb", "FuzzZ", "TestA/sub", "BenchmarkA/sub/deep", "aab", "abcd", "d"}
	c := texts[vxrt.Choice("text", len(texts))]
	s := vxPinned(c)
	for _, p := range pats {
		re := regexp.MustCompile(p)
		vxrt.Assert(re.MatchString(s) == re.MatchString(c), "selftest:regexp-pinned")
		m1, _ := regexp.MatchString(p, s)
		m2, _ := regexp.MatchString(p, c)
		vxrt.Assert(m1 == m2, "selftest:regexp-pinned-pkg-func")
	}
	if vxrt.Choice("text", len(texts)) != 0 {
		return
	}
	f := vxrt.Text("free", 3)
	vxrt.Assume(vxAsciiOnly(f))
	m, _ := regexp.MatchString(`a+b`, f)
	ref := vxrt.Or(vxrt.And(f[0] == 'a', f[1] == 'b'), vxrt.And(f[1] == 'a', f[2] == 'b'))
	vxrt.Assert(m == ref, "selftest:regexp-free-a+b")
	m, _ = regexp.MatchString(`^[A-Z]\d?$`, f[:2])
	ref = vxrt.And(vxrt.And(f[0] >= 'A', f[0] <= 'Z'), vxrt.And(f[1] >= '0', f[1] <= '9'))
	vxrt.Assert(m == ref, "selftest:regexp-free-class")
	m, _ = regexp.MatchString(`\bq\b`, f)
	w := func(b byte) bool {
		return vxrt.Or(vxrt.Or(vxrt.And(b >= 'a', b <= 'z'), vxrt.And(b >= 'A', b <= 'Z')), vxrt.Or(vxrt.And(b >= '0', b <= '9'), b == '_'))
	}
	ref = vxrt.Or(vxrt.Or(vxrt.And(f[0] == 'q', vxrt.Not(w(f[1]))), vxrt.And(vxrt.And(f[1] == 'q', vxrt.Not(w(f[0]))), vxrt.Not(w(f[2])))), vxrt.And(f[2] == 'q', vxrt.Not(w(f[1]))))
	vxrt.Assert(m == ref, "selftest:regexp-free-word-boundary")
}

type vxSelfErr struct{ code int }

func (e *vxSelfErr) Error() string { return "self " + strconv.Itoa(e.code) }

// H_selftest_lib: library models added for refactorings (sort.Slice, errors.As,
// sync/atomic, os.Rename/RemoveAll/Mkdir, sync.Map): the same assertions hold
// in the engine and in the native twin.
func H_selftest_lib() {
	dir := vxrt.Dir()
	// sort.Slice on a slice with a symbolic element
	b := vxrt.Byte("elem")
	vxrt.Assume(vxrt.And(b >= 'a', b <= 'e'))
	xs := []string{"d", string([]byte{b}), "b"}
	sort.Slice(xs, func(i, j int) bool { return xs[i] < xs[j] })
	vxrt.Assert(xs[0] <= xs[1] && xs[1] <= xs[2], "selftest:sort.Slice")
	vxrt.Assert(sort.SliceIsSorted(xs, func(i, j int) bool { return xs[i] < xs[j] }), "selftest:sort.SliceIsSorted")
	// errors.As / errors.Is through fmt.Errorf wrapping
	var base error = &vxSelfErr{code: 7}
	wrapped := fmt.Errorf("ctx: %w", base)
	var se *vxSelfErr
	vxrt.Assert(errors.As(wrapped, &se) && se.code == 7, "selftest:errors.As")
	var other *os.PathError
	vxrt.Assert(!errors.As(wrapped, &other), "selftest:errors.As-miss")
	// atomics
	var n atomic.Int32
	var flag atomic.Bool
	var raw int64
	n.Add(2)
	n.Add(3)
	flag.Store(true)
	atomic.AddInt64(&raw, 5)
	vxrt.Assert(n.Load() == 5 && flag.Load() && atomic.LoadInt64(&raw) == 5 && n.CompareAndSwap(5, 9) && n.Load() == 9, "selftest:atomic")
	// sync.Map
	var m sync.Map
	m.Store("k", 1)
	v, ok := m.Load("k")
	_, miss := m.Load("z")
	act, loaded := m.LoadOrStore("k", 2)
	vxrt.Assert(ok && v.(int) == 1 && !miss && loaded && act.(int) == 1, "selftest:sync.Map")
	// file system
	vxWriteFile(dir+"/a.txt", "one")
	vxrt.Assert(os.Rename(dir+"/a.txt", dir+"/b.txt") == nil && vxReadFile(dir+"/b.txt") == "one" && vxReadFile(dir+"/a.txt") == "<missing>", "selftest:os.Rename")
	vxrt.Assert(os.Rename(dir+"/nope", dir+"/c.txt") != nil, "selftest:os.Rename-missing")
	vxrt.Assert(os.Mkdir(dir+"/sub", 0o755) == nil && os.Mkdir(dir+"/sub", 0o755) != nil, "selftest:os.Mkdir")
	vxWriteFile(dir+"/sub/x.txt", "x")
	vxrt.Assert(os.RemoveAll(dir+"/sub") == nil && vxReadFile(dir+"/sub/x.txt") == "<missing>" && os.RemoveAll(dir+"/sub") == nil, "selftest:os.RemoveAll")
	names, _ := vxOsReadDirNames(dir)
	vxrt.Assert(len(names) == 1 && names[0] == "b.txt", "selftest:dir-after")
}

// H_selftest_json: encoding/json's scanner (Valid, Compact) interpreted from its SSA agrees with
// the interpreted gjson validator on every byte string of the given length.
func H_selftest_json() {
	b := vxrt.Bytes("doc", vxrt.Len("doc-len", 0, vxrt.Param("n", 3)))
	vxrt.Assert(json.Valid(b) == gjson.ValidBytes(b), "selftest:json.Valid-agrees-with-gjson")
	var buf bytes.Buffer
	err := json.Compact(&buf, []byte(` {"a" : [1, 2 ] } `))
	vxrt.Assert(err == nil && buf.String() == `{"a":[1,2]}`, "selftest:json.Compact")
}

// H_selftest_minmax: the min/max built-ins on symbolic integers.
func H_selftest_minmax() {
	a := int(vxrt.Byte("a")) - 100
	b := int(vxrt.Byte("b")) - 100
	lo, hi := min(a, b), max(a, b, -5)
	vxrt.Assert(lo <= a && lo <= b && (lo == a || lo == b), "selftest:min")
	vxrt.Assert(hi >= a && hi >= b && hi >= -5 && (hi == a || hi == b || hi == -5), "selftest:max")
	u := uint8(vxrt.Byte("u"))
	vxrt.Assert(min(u, 200) <= 200 && max(u, 7) >= 7, "selftest:min-unsigned")
}

// H_selftest_refprev: the harness's reader of the .snap format agrees with the implementation's
// on files built around two entries with free bytes in the bodies and between the entries.
func H_selftest_refprev() {
	dir := vxrt.Dir()
	path := dir + "/f.snap"
	n := vxrt.Param("n", 2)
	b1 := vxrt.Text("body1", vxrt.Len("n1", 0, n))
	gap := vxrt.Text("gap", vxrt.Len("ng", 0, n))
	b2 := vxrt.Text("body2", vxrt.Len("n2", 0, n))
	vxWriteFile(path, "\n[TestA - 1]\n"+b1+"\n---\n"+gap+"[TestB - 1]\n"+b2+"\n---\n")
	for _, id := range []string{"[TestA - 1]", "[TestB - 1]", "[TestC - 1]"} {
		g1, l1, e1 := getPrevSnapshot(id, path)
		g2, l2, e2 := vxRefPrev(id, path)
		vxrt.Assert((e1 == nil) == (e2 == nil) && vxrt.Eq(g1, g2) && l1 == l2, "selftest:reference-reader-agrees")
	}
}

// H_selftest_deepequal: the model of reflect.DeepEqual and of the address of a slice cell agree
// with the real ones (the asserted facts hold natively; sample validation replays them).
func H_selftest_deepequal() {
	c := vxrt.Text("c", 1)
	var nilMap map[string]any
	var nilSlice []any
	a := map[string]any{"k": []any{"x", 1.5, nil, true}, "s": c}
	b := map[string]any{"s": c, "k": []any{"x", 1.5, nil, true}}
	vxrt.Assert(reflect.DeepEqual(a, b), "selftest:deepequal-maps")
	b["k"].([]any)[1] = 2.5
	vxrt.Assert(!reflect.DeepEqual(a, b), "selftest:deepequal-nested-difference")
	vxrt.Assert(reflect.DeepEqual(nil, nil) && !reflect.DeepEqual(nil, nilMap) && !reflect.DeepEqual(nilMap, map[string]any{}), "selftest:deepequal-nil")
	vxrt.Assert(!reflect.DeepEqual(nilSlice, []any{}) && reflect.DeepEqual([]any{}, []any{}), "selftest:deepequal-nil-slice")
	vxrt.Assert(!reflect.DeepEqual(1, 1.0) && !reflect.DeepEqual("1", 1) && reflect.DeepEqual(any(c), any(string([]byte{c[0]}))), "selftest:deepequal-types")
	x, y := 1, 1
	vxrt.Assert(reflect.DeepEqual(&x, &y) && reflect.DeepEqual(struct{ A []int }{[]int{1}}, struct{ A []int }{[]int{1}}), "selftest:deepequal-pointers-structs")
	vxrt.Assert(reflect.DeepEqual(c == "q", c[0] == 'q'), "selftest:deepequal-symbolic")
	// decoding into any and encoding such trees again (host library behind both)
	var dec any
	err := json.Unmarshal([]byte(`{"b":[1,"x",null,true,{"z":1.5}],"a":9007199254740993}`), &dec)
	vxrt.Assert(err == nil && dec.(map[string]any)["a"].(float64) == 9007199254740992 && len(dec.(map[string]any)["b"].([]any)) == 5, "selftest:json-unmarshal-any")
	enc, err := json.Marshal(dec)
	vxrt.Assert(err == nil && string(enc) == `{"a":9007199254740992,"b":[1,"x",null,true,{"z":1.5}]}`, "selftest:json-marshal-tree")
	vxrt.Assert(json.Unmarshal([]byte(`{"a":`), &dec) != nil, "selftest:json-unmarshal-error")
	// slices.Insert relies on comparing addresses of slice cells (overlap test)
	names := []string{"b", "d"}
	names = slices.Insert(names, 1, "c")
	names = slices.Insert(names, 0, names[1:]...)
	vxrt.Assert(strings.Join(names, ",") == "c,d,b,c,d", "selftest:slices-insert")
	vxrt.Assert(len(names) == 5 && names[0] == "c" && names[2] == "b", "selftest:slices-insert-self")
}
