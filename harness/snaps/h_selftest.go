//go:build verif || verif_replay

package snaps

import (
	"bytes"
	"fmt"
	"path/filepath"
	"strconv"
	"strings"

	"github.com/gkampitakis/go-snaps/internal/vxrt"
)

// pinned returns a string whose bytes are symbolic but constrained to equal
// want: the engine has to take its symbolic code paths (interpreted library
// code, intrinsics, fmt summary) while the answer is known.
func pinned(want string) string {
	s := vxrt.Text("pinned", len(want))
	vxrt.Assume(vxrt.Eq(s, want))
	return s
}

// H_selftest: differential test of the engine's treatment of library
// functions: every function is applied to a pinned-symbolic argument (symbolic
// path) and to the same concrete literal (host function), and the results must
// agree. Run by setup.sh and by `./check selftest`.
func H_selftest() {
	texts := []string{"", "a", "a\nb", "\n", "--- \n---", "x\r\ny\n", "[TestA - 1]", "/-/-/-/\n\n", "αβ\xff", "100%d"}
	which := vxrt.Choice("text", len(texts))
	c := texts[which]
	s := pinned(c)
	eq := func(label string, got, want any) {
		vxrt.Assert(fmt.Sprint(got) == fmt.Sprint(want), "selftest:"+label)
	}
	eq("Split", strings.Join(strings.Split(s, "\n"), "|"), strings.Join(strings.Split(c, "\n"), "|"))
	eq("SplitAfter", strings.Join(strings.SplitAfter(s, "\n"), "|"), strings.Join(strings.SplitAfter(c, "\n"), "|"))
	eq("Index", strings.Index(s, "\n"), strings.Index(c, "\n"))
	eq("IndexLong", strings.Index(s, "---"), strings.Index(c, "---"))
	eq("Contains", strings.Contains(s, " - "), strings.Contains(c, " - "))
	eq("HasPrefix", strings.HasPrefix(s, "[Test"), strings.HasPrefix(c, "[Test"))
	eq("HasSuffix", strings.HasSuffix(s, "\n"), strings.HasSuffix(c, "\n"))
	eq("TrimSuffix", strings.TrimSuffix(s, "\n"), strings.TrimSuffix(c, "\n"))
	eq("TrimSpace", strings.TrimSpace(s), strings.TrimSpace(c))
	eq("ReplaceAll", strings.ReplaceAll(s, "/", "_"), strings.ReplaceAll(c, "/", "_"))
	eq("Count", strings.Count(s, "-"), strings.Count(c, "-"))
	eq("Repeat", strings.Repeat(s, 2), strings.Repeat(c, 2))
	eq("LastIndex", strings.LastIndex(s, "-"), strings.LastIndex(c, "-"))
	eq("bytes.Equal", bytes.Equal([]byte(s), []byte("---")), bytes.Equal([]byte(c), []byte("---")))
	eq("bytes.Index", bytes.Index([]byte(s), []byte(" - ")), bytes.Index([]byte(c), []byte(" - ")))
	eq("bytes.HasPrefix", bytes.HasPrefix([]byte(s), []byte("[Test")), bytes.HasPrefix([]byte(c), []byte("[Test")))
	eq("runes", len([]rune(s)), len([]rune(c)))
	eq("runes-roundtrip", string([]rune(s)), string([]rune(c)))
	eq("compare", s < "b", c < "b")
	eq("Sprintf-s", fmt.Sprintf("[%s - %d]", s, 12), fmt.Sprintf("[%s - %d]", c, 12))
	eq("Sprintf-v", fmt.Sprintf("%v|%v|%v|%T", s, 7, true, s), fmt.Sprintf("%v|%v|%v|%T", c, 7, true, c))
	eq("Sprintf-format", fmt.Sprintf(s, 3), fmt.Sprintf(c, 3))
	eq("Sprint", fmt.Sprint(s, 1, 2, "x"), fmt.Sprint(c, 1, 2, "x"))
	eq("Sprintln", fmt.Sprintln(s, 1), fmt.Sprintln(c, 1))
	eq("Errorf", fmt.Errorf("wrap %s: %w", s, errSnapNotFound).Error(), fmt.Errorf("wrap %s: %w", c, errSnapNotFound).Error())
	var sb strings.Builder
	sb.WriteString(s)
	sb.WriteByte('\n')
	sb.Write([]byte(s))
	eq("Builder", sb.String(), c+"\n"+c)
	var bb bytes.Buffer
	bb.WriteString(s)
	bb.WriteByte('!')
	eq("Buffer", bb.String(), c+"!")
	eq("Itoa", strconv.Itoa(len(s)), strconv.Itoa(len(c)))
	// file paths (no NUL / separator surprises in these inputs)
	if which == 1 || which == 6 {
		eq("Join", filepath.Join("/d", s, "x"), filepath.Join("/d", c, "x"))
		eq("Base", filepath.Base("/d/"+s), filepath.Base("/d/"+c))
		eq("Ext", filepath.Ext(s+".snap"), filepath.Ext(c+".snap"))
		eq("Dir", filepath.Dir("/d/e/"+s), filepath.Dir("/d/e/"+c))
	}
	// go-snaps' own helpers on both
	eq("escape", escapeEndChars(s), escapeEndChars(c))
	eq("unescape", unescapeEndChars(s), unescapeEndChars(c))
	_, okS := getTestID([]byte(s))
	_, okC := getTestID([]byte(c))
	eq("getTestID", okS, okC)
	eq("isSingleline", isSingleline(s), isSingleline(c))
}
