//go:build verif || verif_replay

package snaps

import (
	"strings"

	"github.com/gkampitakis/go-snaps/internal/vxrt"
)

// H_C10_rewrite: whenever Clean rewrites a file (pruning or sorting) every
// surviving entry replays exactly the value it held, exactly once; with sort
// the ids end up in natural order; files needing neither are not written;
// a second run changes nothing.
func H_C10_rewrite() {
	vxrt.EnvFixed("NO_COLOR", "1")
	vxCalibrateExamineSnaps()
	dir := vxrt.Dir()
	path := dir + "/f.snap"
	k := vxrt.Len("frames", 1, vxrt.Param("frames", 3))
	n := vxrt.Param("n", 2)
	// ids: Test<letter> - <digit>, letters/digits symbolic (equal prefixes, numeric order)
	ids := make([]string, k)
	names := make([]string, k)
	bodies := make([]string, k)
	stale := make([]bool, k)
	content := ""
	for i := 0; i < k; i++ {
		l := vxrt.Text("letter", 1)
		d := vxrt.Text("digits", vxrt.Len("digits-len", 1, vxrt.Param("digits", 2)))
		vxrt.Assume(vxrt.And(l[0] >= 'a', l[0] <= 'c'))
		for j := 0; j < len(d); j++ {
			vxrt.Assume(vxrt.And(d[j] >= '0', d[j] <= '9'))
		}
		vxrt.Assume(d[0] != '0')
		names[i] = "Test" + l
		ids[i] = names[i] + " - " + d
		bodies[i] = vxrt.Text("body", vxrt.Len("body-len", 0, n))
		vxrt.Assume(vxNoCRAtEOL(bodies[i]))
		vxrt.Assume(vxNoTerminatorLine(bodies[i]))
		for j := 0; j < i; j++ {
			vxrt.Assume(vxDiffers(ids[i], ids[j])) // well-formed file: ids pairwise distinct
		}
		stale[i] = vxrt.Bool("stale")
		content += vxFrame(ids[i], bodies[i])
	}
	vxWriteFile(path, content)
	// registry: every non-stale id is registered (count 1): name -> highest ordinal is not
	// what occurrences() expects, so register through the set it builds: use count = 1 and
	// one map entry per id by making the per-name counter equal to the ordinal when it is
	// the only id of that name; simpler and exact: call examineSnaps with a registry whose
	// occurrences are exactly the live ids.
	reg := map[string]map[string]int{path: {}}
	live := map[string]bool{}
	for i := 0; i < k; i++ {
		if !stale[i] {
			live[ids[i]] = true
		}
	}
	// occurrences(name -> c) yields ids name-1..name-c; to register exactly the live ids we
	// restrict the scenario: ordinals of live ids of one name must be 1..c. Instead of
	// restricting, bypass occurrences by registering each live id as its own "name" with the
	// ordinal stripped is not possible; so assume the closure property:
	for i := 0; i < k; i++ {
		if stale[i] {
			continue
		}
		nm := names[i]
		ord := vxAtoiSmall(ids[i][len(nm)+3:])
		if ord > reg[path][nm] {
			reg[path][nm] = ord
		}
	}
	regSet := occurrences(reg[path], 1, snapshotOccurrenceFMT)
	for i := 0; i < k; i++ {
		// the scenario is consistent iff "registered" coincides with "not stale"
		vxrt.Assume(regSet.Has(ids[i]) == !stale[i])
	}
	update := vxrt.Bool("update")
	sortOpt := vxrt.Bool("sort")
	stamp := vxrt.FSStamp()
	obsolete, err := examineSnaps(reg, []string{path}, "", 1, update, sortOpt)
	vxrt.Assert(err == nil, "C10:examine-succeeds")
	nStale := 0
	for i := 0; i < k; i++ {
		if stale[i] {
			nStale++
		}
	}
	vxrt.Assert(len(obsolete) == nStale, "C10:obsolete-count")
	wrote := vxrt.FSStamp() != stamp
	sortedAlready := true
	for i := 1; i < k; i++ {
		sortedAlready = sortedAlready && naturalSort(ids[i-1], ids[i]) <= 0
	}
	if !(update && nStale > 0) && !(sortOpt && !sortedAlready) {
		vxrt.Reach("no-op")
		vxrt.Assert(!wrote, "C10:no-write-when-nothing-to-do")
	} else {
		vxrt.Reach("rewrite")
	}
	// survivors replay their value, each exactly once
	after := vxReadFile(path)
	total := 0
	for i := 0; i < k; i++ {
		survives := !(update && stale[i])
		got, _, err := vxRefPrev("["+ids[i]+"]", path)
		if survives {
			total += len(vxFrame(ids[i], bodies[i]))
			vxrt.Assert(err == nil, "C10:survivor-present")
			vxrt.Assert(vxrt.Eq(got, bodies[i]), "C10:survivor-value-unchanged")
		} else {
			vxrt.Assert(err != nil, "C10:pruned-entry-gone")
		}
	}
	vxrt.Assert(len(after) == total, "C10:no-duplicate-no-residue")
	if sortOpt {
		// ids in the file are in natural order
		var order []string
		sc := 0
		_ = sc
		lines := vxSplitLines(after)
		for _, ln := range lines {
			if id, ok := getTestID([]byte(ln)); ok {
				order = append(order, id)
			}
		}
		inOrder := true
		for i := 1; i < len(order); i++ {
			inOrder = inOrder && naturalSort(order[i-1], order[i]) <= 0
		}
		vxrt.Assert(inOrder, "C10:sorted-in-natural-order")
	}
	// idempotence
	stamp2 := vxrt.FSStamp()
	reg2 := map[string]map[string]int{path: reg[path]}
	_, err = examineSnaps(reg2, []string{path}, "", 1, update, sortOpt)
	vxrt.Assert(err == nil && vxrt.FSStamp() == stamp2, "C10:second-run-changes-nothing")
	vxrt.Assert(vxrt.Eq(vxReadFile(path), after), "C10:second-run-same-bytes")
}

func vxAtoiSmall(s string) int {
	n := 0
	for i := 0; i < len(s); i++ {
		n = n*10 + int(s[i]-'0')
	}
	return n
}

func vxSplitLines(s string) []string {
	var out []string
	cur := ""
	for i := 0; i < len(s); i++ {
		if s[i] == '\n' {
			out = append(out, cur)
			cur = ""
			continue
		}
		cur += s[i : i+1]
	}
	if cur != "" {
		out = append(out, cur)
	}
	return out
}

// hasHeaderLikeLine: some whole line of body has the shape Clean recognises
// as an entry header: starts with "[Test", ends with "]".
func vxHasHeaderLikeLine(body string) bool {
	n := len(body)
	found := false
	for p := 0; p+6 <= n; p++ {
		startOK := p == 0
		if p > 0 {
			startOK = body[p-1] == '\n'
		}
		found = vxrt.Or(found, vxrt.And(startOK, vxrt.Eq(body[p:p+5], "[Test")))
	}
	return found
}

// H_C10_bodies: one entry with a line-structured body (see structText) next to
// a second entry that makes Clean rewrite the file (by sorting or pruning);
// the structured entry must replay exactly what it held.
func H_C10_bodies() {
	vxrt.EnvFixed("NO_COLOR", "1")
	vxCalibrateExamineSnaps()
	dir := vxrt.Dir()
	path := dir + "/f.snap"
	var body string
	if big := vxrt.Param("big", 0); big > 0 {
		// an entry larger than bufio's 4096-byte read buffer: several lines before and after a long one
		filler := make([]byte, big)
		for i := range filler {
			filler[i] = 'x'
		}
		body = "first line\nsecond line\n" + string(filler) + "\n" + vxrt.Text("tail", 1) + " line after\nlast line"
	} else if vxrt.Bool("header-like-line") {
		// a body line shaped like an entry header (but not the header of an entry of this file,
		// which is known finding K2's class)
		c := vxrt.Text("hdr-letter", 1)
		vxrt.Assume(vxrt.And(vxrt.And(c[0] >= 'A', c[0] <= 'Z'), vxrt.And(c[0] != 'A', c[0] != 'B')))
		body = "a\n[Test" + c + " - 1]\nb"
	} else {
		body = vxStructText("body", vxrt.Param("lines", 2))
	}
	vxrt.Assume(vxNoTerminatorLine(body))
	other := vxFrame("TestB - 1", "x")
	mine := vxFrame("TestA - 1", body)
	reg := map[string]map[string]int{path: {"TestA": 1}}
	update, sortOpt := false, false
	switch vxrt.Choice("rewrite-reason", 3) {
	case 0: // pruning: TestB is stale, clean mode
		vxWriteFile(path, other+mine)
		update = true
	case 1: // sorting: both live, unsorted; the old layout may be longer than the canonical one
		if vxrt.Bool("blank-lines-between-entries") {
			vxWriteFile(path, other+"\n\n\n\n\n\n\n\n\n\n\n\n\n\n\n\n\n\n\n\n\n\n\n\n"+mine)
		} else {
			vxWriteFile(path, other+mine)
		}
		reg[path]["TestB"] = 1
		sortOpt = true
	default: // pruning with the stale entry after
		vxWriteFile(path, mine+other)
		update = true
	}
	stamp := vxrt.FSStamp()
	_, err := examineSnaps(reg, []string{path}, "", 1, update, sortOpt)
	vxrt.Assert(err == nil && vxrt.FSStamp() != stamp, "C10:file-rewritten")
	got, _, err := vxRefPrev("[TestA - 1]", path)
	vxrt.Assert(err == nil, "C10:survivor-present")
	vxrt.Assert(vxrt.Eq(got, body), "C10:survivor-value-unchanged")
	want := mine
	if sortOpt {
		want = mine + other
	}
	vxrt.Assert(vxrt.Eq(vxReadFile(path), want), "C10:no-duplicate-no-residue")
}

// H_C10_natural: two live entries of one test with a one-digit and a two-digit
// ordinal (digits symbolic), in either order, sort requested: the file ends up
// in numeric order of the ordinals and is written only if it was not.
func H_C10_natural() {
	vxrt.EnvFixed("NO_COLOR", "1")
	vxCalibrateExamineSnaps()
	dir := vxrt.Dir()
	path := dir + "/f.snap"
	d1 := vxrt.Text("one-digit", 1)
	d2 := vxrt.Text("two-digits", 2)
	vxrt.Assume(vxrt.And(d1[0] >= '1', d1[0] <= '9'))
	vxrt.Assume(vxrt.And(vxrt.And(d2[0] >= '1', d2[0] <= '9'), vxrt.And(d2[1] >= '0', d2[1] <= '9')))
	small := vxFrame("Testa - "+d1, "x")
	big := vxFrame("Testa - "+d2, "y")
	bigFirst := vxrt.Bool("two-digit-ordinal-first")
	if bigFirst {
		vxWriteFile(path, big+small)
	} else {
		vxWriteFile(path, small+big)
	}
	reg := map[string]map[string]int{path: {"Testa": 99}}
	stamp := vxrt.FSStamp()
	obsolete, err := examineSnaps(reg, []string{path}, "", 1, false, true)
	vxrt.Assert(err == nil && len(obsolete) == 0, "C10:examine-succeeds")
	vxrt.Assert(vxrt.Eq(vxReadFile(path), small+big), "C10:sorted-in-natural-order")
	vxrt.Assert((vxrt.FSStamp() != stamp) == bigFirst, "C10:written-only-if-unsorted")
}

// H_C10_ties: two distinct ids that the natural comparator cannot order (they
// differ only by a leading zero); with sort requested Clean must still be
// idempotent and must not rewrite a file it already considers sorted.
func H_C10_ties() {
	vxrt.EnvFixed("NO_COLOR", "1")
	vxCalibrateExamineSnaps()
	dir := vxrt.Dir()
	path := dir + "/f.snap"
	d := vxrt.Text("digit", 1)
	vxrt.Assume(vxrt.And(d[0] >= '1', d[0] <= '9'))
	a := vxFrame("TestPad/0"+d+" - 1", "x")
	b := vxFrame("TestPad/"+d+" - 1", "y")
	lead := ""
	if vxrt.Bool("an-entry-out-of-order-before-them") {
		lead = vxFrame("TestZ - 1", "z")
	}
	if vxrt.Bool("zero-padded-first") {
		vxWriteFile(path, lead+a+b)
	} else {
		vxWriteFile(path, lead+b+a)
	}
	reg := map[string]map[string]int{path: {"TestPad/0" + d: 1, "TestPad/" + d: 1, "TestZ": 1}}
	_, err := examineSnaps(reg, []string{path}, "", 1, false, true)
	vxrt.Assert(err == nil, "C10:examine-succeeds")
	after := vxReadFile(path)
	ga, _, ea := vxRefPrev("[TestPad/0"+d+" - 1]", path)
	gb, _, eb := vxRefPrev("[TestPad/"+d+" - 1]", path)
	vxrt.Assert(ea == nil && eb == nil && ga == "x" && gb == "y", "C10:survivor-value-unchanged")
	stamp := vxrt.FSStamp()
	_, err = examineSnaps(reg, []string{path}, "", 1, false, true)
	vxrt.Assert(err == nil && vxrt.FSStamp() == stamp, "C10:second-run-changes-nothing")
	vxrt.Assert(vxrt.Eq(vxReadFile(path), after), "C10:second-run-same-bytes")
}

// H_C10_names: entries of tests with unusual but legal names (brackets, '#', dashes, non-ASCII,
// benchmark and fuzz prefixes) survive a rewrite - pruning or sorting - with their values.
func H_C10_names() {
	vxrt.EnvFixed("NO_COLOR", "1")
	vxCalibrateExamineSnaps()
	dir := vxrt.Dir()
	path := dir + "/f.snap"
	names := []string{"TestA/[x]", "TestA/]", "TestA/x_-_1", "TestA/#01", "TestÄ/ü", "TestA/a-b", "BenchmarkB/[8]", "FuzzF/seed#1", "TestA/[TestZ_-_1]"}
	name := names[vxrt.Choice("name", len(names))]
	mine := vxFrame(name+" - 1", "mine")
	other := vxFrame("TestB - 1", "x")
	reg := map[string]map[string]int{path: {name: 1}}
	update, sortOpt := false, false
	switch vxrt.Choice("rewrite-reason", 3) {
	case 0:
		vxWriteFile(path, other+mine)
		update = true
	case 1:
		// both live; unsorted in natural order whichever way round
		vxWriteFile(path, vxFrame("TestZZ - 1", "zz")+mine+other)
		reg[path]["TestB"] = 1
		reg[path]["TestZZ"] = 1
		sortOpt = true
	default:
		vxWriteFile(path, mine+other)
		update = true
	}
	_, err := examineSnaps(reg, []string{path}, "", 1, update, sortOpt)
	vxrt.Assert(err == nil, "C10:examine-succeeds")
	got, _, err := vxRefPrev("["+name+" - 1]", path)
	vxrt.Assert(err == nil, "C10:survivor-present")
	vxrt.Assert(got == "mine", "C10:survivor-value-unchanged")
}

// H_C10_secondfile: Clean examines several files in one go; a file that needs neither pruning
// nor sorting is not written, whatever an earlier or later file of the same run needed.
func H_C10_secondfile() {
	vxrt.EnvFixed("NO_COLOR", "1")
	vxCalibrateExamineSnaps()
	dir := vxrt.Dir()
	pa, pb, pc := dir+"/a.snap", dir+"/b.snap", dir+"/c.snap"
	clean := vxFrame("TestB - 1", "x") + vxFrame("TestB - 2", "y")
	vxWriteFile(pb, clean)
	needs := vxrt.Choice("what-the-other-files-need", 5)
	switch needs {
	case 4: // one test records into the first and the last file; the first needs nothing, in the last
		// its second entry is stale (it only makes one call there now)
		vxWriteFile(pa, vxFrame("TestX - 1", "a1")+vxFrame("TestX - 2", "a2"))
		vxWriteFile(pc, vxFrame("TestX - 1", "c1")+vxFrame("TestX - 2", "stale"))
	case 3: // the earlier file holds only stale entries, one of them with an id that is live in the
		// last file, which has to be rewritten because of a stale entry of its own
		vxWriteFile(pa, vxFrame("TestC - 1", "stale here")+vxFrame("TestGone - 1", "stale"))
		vxWriteFile(pc, vxFrame("TestC - 1", "c")+vxFrame("TestOld - 2", "stale"))
	case 0: // a stale entry in the file before and in the file after
		vxWriteFile(pa, vxFrame("TestA - 1", "a")+vxFrame("TestOld - 1", "stale"))
		vxWriteFile(pc, vxFrame("TestOld - 2", "stale")+vxFrame("TestC - 1", "c"))
	case 1: // the others are unsorted
		vxWriteFile(pa, vxFrame("TestZ - 1", "z")+vxFrame("TestA - 1", "a"))
		vxWriteFile(pc, vxFrame("TestZ - 2", "z")+vxFrame("TestC - 1", "c"))
	default: // nothing to do anywhere
		vxWriteFile(pa, vxFrame("TestA - 1", "a"))
		vxWriteFile(pc, vxFrame("TestC - 1", "c"))
	}
	reg := map[string]map[string]int{pa: {"TestA": 1, "TestZ": 1}, pb: {"TestB": 2}, pc: {"TestC": 1, "TestZ": 2}}
	stampB := vxrt.FileStamp(pb)
	if needs == 3 {
		reg = map[string]map[string]int{pa: {}, pb: {"TestB": 2}, pc: {"TestC": 1}}
	}
	if needs == 4 {
		reg = map[string]map[string]int{pa: {"TestX": 2}, pb: {"TestB": 2}, pc: {"TestX": 1}}
	}
	order := []string{pa, pb, pc}
	if needs == 3 {
		order = []string{pa, pc, pb} // the rewritten file directly follows the all-stale one
	}
	obsolete, err := examineSnaps(reg, order, "", 1, needs == 0 || needs >= 3, needs == 1)
	vxrt.Assert(err == nil, "C10:examine-succeeds")
	if needs == 4 {
		vxrt.Assert(len(obsolete) == 1 && vxReadFile(pc) == vxFrame("TestX - 1", "c1"), "C10:no-duplicate-no-residue")
		vxrt.Assert(vxReadFile(pa) == vxFrame("TestX - 1", "a1")+vxFrame("TestX - 2", "a2"), "C10:file-needing-nothing-is-not-written")
	}
	if needs == 3 {
		vxrt.Assert(len(obsolete) == 3 && vxReadFile(pc) == vxFrame("TestC - 1", "c"), "C10:no-duplicate-no-residue")
	}
	if needs == 0 {
		vxrt.Assert(len(obsolete) == 2, "C10:both-stale-entries-found")
	}
	vxrt.Assert(vxrt.FileStamp(pb) == stampB && vxReadFile(pb) == clean, "C10:file-needing-nothing-is-not-written")
}

// H_C10_both: pruning and sorting requested together on a file that needs both: the stale entry
// goes, the survivors end up in natural order with their values, and a second Clean changes nothing.
func H_C10_both() {
	vxrt.EnvFixed("NO_COLOR", "1")
	vxCalibrateExamineSnaps()
	dir := vxrt.Dir()
	path := dir + "/f.snap"
	fb, fa, f10, fold := vxFrame("TestB - 1", "b"), vxFrame("TestA - 2", "a2"), vxFrame("TestA - 10", "a10"), vxFrame("TestOld - 1", "stale")
	reg := map[string]map[string]int{path: {"TestA": 10, "TestB": 1}}
	want := fa + f10 + fb
	var content string
	emptyBody := false
	switch vxrt.Choice("stale-position", 7) {
	case 6: // a live entry without any body line (it replays as the empty text) next to a stale one
		fe := "\n[TestE - 1]\n---\n"
		content = fb + fe + fold + fa
		reg = map[string]map[string]int{path: {"TestA": 10, "TestB": 1, "TestE": 1}}
		emptyBody = true
	case 5: // a test that now makes two calls; its stale third entry is stored before the second
		s1, s2, s3 := vxFrame("TestS - 1", "s1"), vxFrame("TestS - 2", "s2"), vxFrame("TestS - 3", "stale")
		content = s1 + s3 + s2
		reg = map[string]map[string]int{path: {"TestS": 2}}
		want = s1 + s2
	case 4: // live M, stale C, live D: the stale entry is in order with what follows it, the survivors are not
		fm, fd := vxFrame("TestM - 1", "m"), vxFrame("TestD - 1", "d")
		content = fm + vxFrame("TestC - 1", "stale") + fd
		reg = map[string]map[string]int{path: {"TestM": 1, "TestD": 1}}
		want = fd + fm
	case 3: // the stale entry sorts between its neighbours, which are out of order
		content = fb + vxFrame("TestAZ - 1", "stale") + f10 + fa
	case 0:
		content = fold + fb + f10 + fa
	case 1:
		content = fb + fold + f10 + fa
	default:
		content = fb + f10 + fa + fold
	}
	if vxrt.Bool("file-has-CRLF-line-endings") {
		// an autocrlf checkout: entries are found all the same, the rewrite is in the usual layout
		content = strings.ReplaceAll(content, "\n", "\r\n")
	}
	vxWriteFile(path, content)
	obsolete, err := examineSnaps(reg, []string{path}, "", 1, true, true)
	vxrt.Assert(err == nil && len(obsolete) == 1, "C10:examine-succeeds")
	if emptyBody {
		// the survivors, the one with the empty body included, are all still there with their values
		for id, v := range map[string]string{"TestA - 2": "a2", "TestB - 1": "b", "TestE - 1": ""} {
			got, _, err := vxRefPrev("["+id+"]", path)
			vxrt.Assert(err == nil && got == v, "C10:survivor-value-unchanged")
		}
		_, _, err := vxRefPrev("[TestOld - 1]", path)
		vxrt.Assert(err != nil, "C10:stale-entry-removed")
		return
	}
	vxrt.Assert(vxReadFile(path) == want, "C10:sorted-in-natural-order")
	stamp := vxrt.FSStamp()
	_, err = examineSnaps(reg, []string{path}, "", 1, true, true)
	vxrt.Assert(err == nil && vxrt.FSStamp() == stamp, "C10:second-run-changes-nothing")
}

// H_C10_ext: a snapshot file with a custom extension (f_test.snap.txt) is a snapshot file for
// Clean like any other: sorting puts its entries in natural order, clean mode prunes its stale
// entry, and the survivors replay.
func H_C10_ext() {
	vxrt.CI(false)
	vxrt.EnvFixed("NO_COLOR", "1")
	prune := vxrt.Bool("clean-mode")
	if prune {
		vxrt.EnvFixed("UPDATE_SNAPS", "clean")
	} else {
		vxrt.EnvFixed("UPDATE_SNAPS", "")
	}
	vxrt.Flag("test.run", "")
	vxrt.Flag("test.count", "1")
	dir := vxrt.Dir() + "/__snapshots__"
	ext := []string{".txt", ".snap.bak", "x"}[vxrt.Choice("ext", 3)]
	path := dir + "/f_test.snap" + ext
	if vxrt.Bool("file-already-in-order") {
		// nothing to sort, but in clean mode the stale entry still goes
		vxWriteFile(path, vxFrame("TestA - 1", "a")+vxFrame("TestB - 1", "b")+vxFrame("TestGone - 1", "stale"))
	} else {
		vxWriteFile(path, vxFrame("TestB - 1", "b")+vxFrame("TestGone - 1", "stale")+vxFrame("TestA - 1", "a"))
	}
	vxrt.TestSources(vxrt.Dir()+"/f_test.go", "TestA", "TestB")
	c := WithConfig(Dir(dir), Filename("f_test"), Ext(ext), Update(false))
	for _, n := range []string{"TestB", "TestA"} {
		t := vxNewT(n)
		c.MatchSnapshot(t, strings.ToLower(n[4:]))
		t.end()
	}
	Clean(nil, CleanOpts{Sort: true})
	out := vxrt.Stdout()
	vxrt.Assert(strings.Contains(out, vxBullet+"TestGone - 1\n"), "C09:stale-entry-reported")
	want := vxFrame("TestA - 1", "a") + vxFrame("TestB - 1", "b")
	if !prune {
		want = vxFrame("TestA - 1", "a") + vxFrame("TestB - 1", "b") + vxFrame("TestGone - 1", "stale")
	}
	vxrt.Assert(vxReadFile(path) == want, "C10:sorted-in-natural-order")
}
