//go:build verif || verif_replay

package snaps

import (
	"github.com/gkampitakis/go-snaps/internal/vxrt"
	"github.com/gkampitakis/go-snaps/match"
	"github.com/tidwall/gjson"
)

// leaf returns a symbolic JSON scalar and its text.
func vxLeaf(label string) string {
	switch vxrt.Choice(label+"-kind", 3) {
	case 0:
		d := vxrt.Text(label+"-digits", vxrt.Len(label+"-digits-len", 1, 2))
		for i := 0; i < len(d); i++ {
			vxrt.Assume(vxrt.And(d[i] >= '1', d[i] <= '9'))
		}
		return d
	case 1:
		s := vxrt.Text(label+"-str", vxrt.Len(label+"-str-len", 0, vxrt.Param("strlen", 2)))
		for i := 0; i < len(s); i++ {
			vxrt.Assume(vxrt.And(vxrt.And(s[i] >= 0x20, s[i] < 0x7f), vxrt.And(s[i] != '"', s[i] != '\\')))
		}
		return `"` + s + `"`
	default:
		return []string{"true", "null"}[vxrt.Choice(label+"-lit", 2)]
	}
}

// H_C15_json: a JSON matcher yields a valid document equal to the input with
// exactly the targeted value replaced; other members keep value and position;
// the caller's bytes are never modified.
func H_C15_json() {
	which := vxrt.Choice("path", 3)
	path := []string{"a", "o.k", "z.0"}[which]
	// the targeted value is symbolic; one neighbour too in the thorough tier
	vals := []string{"1", `"n"`, "null"}
	vals[which] = vxLeaf("target")
	if vxrt.Param("neighbour", 0) == 1 {
		vals[(which+1)%3] = vxLeaf("neighbour")
	}
	va, vk, v0, v1 := vals[0], vals[1], vals[2], "2"
	doc := `{"a":` + va + `,"o":{"k":` + vk + `},"z":[` + v0 + `,` + v1 + `]}`
	// placeholder
	var ph any
	var phText string
	switch vxrt.Choice("placeholder", 8) {
	case 6: // a string that reads like a number or a literal the target may hold
		ph, phText = "7", `"7"`
	case 7:
		ph, phText = "true", `"true"`
	case 4: // a string that happens to look like JSON is still a string
		ph, phText = "[]", `"[]"`
	case 5:
		ph, phText = `{"k":1}`, `"{\"k\":1}"`
	case 0:
		ph, phText = "<Any value>", `"<Any value>"`
	case 1:
		ph, phText = "x", `"x"`
	case 2:
		ph, phText = 5, `5`
	default:
		ph, phText = true, `true`
	}
	matcher := vxrt.Choice("matcher", 2)
	caller := []byte(doc)
	var out []byte
	var errs []match.MatcherError
	if matcher == 0 {
		out, errs = match.Any(path).Placeholder(ph).JSON(caller)
	} else {
		out, errs = match.Custom(path, func(val any) (any, error) { return ph, nil }).JSON(caller)
	}
	vxrt.Assert(len(errs) == 0, "C15:existing-path-no-error")
	parts := []string{va, vk, v0}
	parts[which] = phText
	want := `{"a":` + parts[0] + `,"o":{"k":` + parts[1] + `},"z":[` + parts[2] + `,` + v1 + `]}`
	vxrt.Assert(gjson.ValidBytes(out), "C15:result-is-valid-json")
	vxrt.Assert(vxrt.Eq(vxCompactRef(string(out)), want), "C15:only-the-target-replaced")
	vxrt.Assert(vxrt.Eq(string(caller), doc), "C15:caller-bytes-untouched")
}

// H_C15_multi: several paths in one matcher, repeated and nested paths, and
// the Type matcher: paths take effect left to right on the running document.
func H_C15_multi() {
	v := vxLeaf("value")
	doc := `{"a":` + v + `,"o":{"k":1,"c":2}}`
	caller := []byte(doc)
	typeName := func(val string) string {
		switch {
		case val[0] == '"':
			return "string"
		case val == "true":
			return "bool"
		case val == "null":
			return "<nil>"
		}
		return "float64"
	}
	var out []byte
	var errs []match.MatcherError
	want := ""
	scenario := vxrt.Choice("scenario", 4)
	if (scenario == 1 || scenario == 3) && v == "null" {
		// Type[any] rejects null (a nil value implements no type): an error, not a replacement
		_, errs := match.Type[any]("a").JSON(caller)
		vxrt.Assert(len(errs) == 1, "C15:type-matcher-rejects-null")
		return
	}
	switch scenario {
	case 0: // two distinct paths
		out, errs = match.Any("a", "o.k").JSON(caller)
		want = `{"a":"<Any value>","o":{"k":"<Any value>","c":2}}`
	case 1: // the same path twice with Type: the second application sees the first placeholder
		out, errs = match.Type[any]("a", "a").JSON(caller)
		want = `{"a":"<Type:string>","o":{"k":1,"c":2}}`
	case 2: // a parent and then its child: the child no longer exists
		out, errs = match.Type[any]("o", "o.k").ErrOnMissingPath(false).JSON(caller)
		want = `{"a":` + v + `,"o":"<Type:map[string]interface {}>"}`
	default: // Type on the symbolic value
		out, errs = match.Type[any]("a").JSON(caller)
		want = `{"a":"<Type:` + typeName(v) + `>","o":{"k":1,"c":2}}`
	}
	vxrt.Assert(len(errs) == 0, "C15:existing-path-no-error")
	vxrt.Assert(gjson.ValidBytes(out), "C15:result-is-valid-json")
	vxrt.Assert(vxrt.Eq(vxCompactRef(string(out)), want), "C15:paths-take-effect-left-to-right")
	vxrt.Assert(vxrt.Eq(string(caller), doc), "C15:caller-bytes-untouched")
}

// H_C15_reuse: a matcher value is reusable (applying it to one document does not change
// what it does to the next), placeholders that need JSON escaping are stored as their
// escaped form at every path, and a member named `$` is an ordinary member.
func H_C15_reuse() {
	kind := vxrt.Choice("matcher", 2) // Any, Type
	build := func(ph string, paths ...string) match.JSONMatcher {
		if kind == 0 {
			return match.Any(paths...).Placeholder(ph).ErrOnMissingPath(false)
		}
		return match.Type[float64](paths...).ErrOnMissingPath(false)
	}
	phOf := func(ph string) string {
		if kind == 0 {
			return ph
		}
		return "<Type:float64>"
	}
	switch vxrt.Choice("scenario", 6) {
	case 5: // a nil placeholder masks with null, also at several index paths of one array
		out, errs := match.Any("z.0", "z.1").Placeholder(nil).JSON([]byte(`{"z":[1,2,3],"a":4}`))
		vxrt.Assert(len(errs) == 0, "C15:existing-path-no-error")
		vxrt.Assert(vxCompactRef(string(out)) == `{"z":[null,null,3],"a":4}`, "C15:only-the-target-replaced")
	case 4: // a Custom callback that masks with nil: the value at the path becomes null, so two
		// documents differing only there come out identical
		m := match.Custom("a", func(val any) (any, error) { return nil, nil })
		o1, e1 := m.JSON([]byte(`{"a":5,"b":1}`))
		o2, e2 := m.JSON([]byte(`{"a":"other","b":1}`))
		vxrt.Assert(len(e1)+len(e2) == 0, "C15:existing-path-no-error")
		vxrt.Assert(gjson.GetBytes(o1, "a").Raw == "null" && string(o1) == string(o2), "C16:masked-difference-passes")
	case 3: // a path that gjson computes rather than locates (an array count, a projection): the
		// matcher either reports an error or yields a valid document; it never yields garbage
		path := []string{"z.#", "z.#.id", "z.@reverse", "z.1.id"}[vxrt.Choice("computed-path", 4)]
		doc := `{"z":[{"id":1},{"id":2}],"a":1}`
		var out []byte
		var errs []match.MatcherError
		if kind == 0 {
			out, errs = match.Any(path).JSON([]byte(doc))
		} else {
			out, errs = match.Custom(path, func(val any) (any, error) { return "<replaced>", nil }).JSON([]byte(doc))
		}
		vxrt.Assert(len(errs) > 0 || gjson.ValidBytes(out), "C15:result-is-valid-json")
		if len(errs) == 0 {
			vxrt.Assert(gjson.GetBytes(out, "a").Raw == "1", "C15:only-the-target-replaced")
		}
	case 0: // the same matcher value applied to an earlier document that lacks some of its paths
		m := build("P", "a", "b", "c")
		vxFirst := []string{`{"b":1,"c":1}`, `{"a":1,"c":1}`, `{"c":1}`, `{"x":1}`, `{"a":1,"b":2,"c":3}`}[vxrt.Choice("earlier-document", 5)]
		m.JSON([]byte(vxFirst))
		out, errs := m.JSON([]byte(`{"a":1,"b":2,"c":3}`))
		vxrt.Assert(len(errs) == 0, "C15:existing-path-no-error")
		for _, p := range []string{"a", "b", "c"} {
			vxrt.Assert(gjson.GetBytes(out, p).String() == phOf("P"), "C15:matcher-value-is-reusable")
		}
	case 1: // a placeholder that needs escaping, shorter than the values it replaces
		ph := []string{`<"q">`, `a\b`, "t\tb", `plain`, "esc\x1b[0m", "del\x7f", "vt\v"}[vxrt.Choice("placeholder", 7)]
		doc := `{"a":"0123456789abcdef","b":"0123456789abcdef","c":"0123456789abcdef"}`
		if kind == 1 {
			doc = `{"a":1234567890123456789012,"b":1234567890123456789012,"c":1234567890123456789012}`
		}
		caller := []byte(doc)
		out, errs := build(ph, "a", "b", "c").JSON(caller)
		vxrt.Assert(len(errs) == 0, "C15:existing-path-no-error")
		vxrt.Assert(gjson.ValidBytes(out), "C15:result-is-valid-json")
		for _, p := range []string{"a", "b", "c"} {
			vxrt.Assert(gjson.GetBytes(out, p).String() == phOf(ph), "C15:every-path-replaced-by-the-placeholder")
		}
		vxrt.Assert(string(caller) == doc, "C15:caller-bytes-untouched")
	default: // a member named "$"
		doc := `{"$":{"r":1},"r":2}`
		out, errs := build("P", "$.r").JSON([]byte(doc))
		vxrt.Assert(len(errs) == 0, "C15:existing-path-no-error")
		vxrt.Assert(gjson.GetBytes(out, "$.r").String() == phOf("P") && gjson.GetBytes(out, "r").Raw == "2", "C15:only-the-target-replaced")
	}
}

// H_C15_callerbytes: MatchJSON with a []byte input and matchers whose placeholders are shorter
// than the values they replace (the result would fit into the caller's buffer): the caller's
// bytes are the same afterwards, and the stored document is the masked one.
func H_C15_callerbytes() {
	vxrt.CI(false)
	dir := vxrt.Dir()
	c := WithConfig(Dir(dir), Filename("f"))
	doc := `{"token":"0123456789abcdef","id":12345678,"name":"n"}`
	input := []byte(doc)
	var ms []match.JSONMatcher
	switch vxrt.Choice("matchers", 3) {
	case 0:
		ms = []match.JSONMatcher{match.Any("token").Placeholder("x")}
	case 1:
		ms = []match.JSONMatcher{match.Any("token").Placeholder("x"), match.Custom("id", func(any) (any, error) { return 1, nil })}
	default:
		ms = []match.JSONMatcher{match.Type[float64]("id"), match.Any("token").Placeholder(0)}
	}
	t := vxNewT("TestB")
	if vxrt.Bool("standalone") {
		c.MatchStandaloneJSON(t, input, ms...)
	} else {
		c.MatchJSON(t, input, ms...)
	}
	t.end()
	vxrt.Assert(len(t.errors) == 0 && len(t.logs) == 1, "C15:existing-path-no-error")
	vxrt.Assert(string(input) == doc, "C15:caller-bytes-untouched")
}

// H_C15_inplace: a Custom callback that masks by editing the decoded object (or list) it was
// handed and returning that same object: what it wrote is what gets stored, like for a freshly
// built result.
func H_C15_inplace() {
	vxrt.CI(false)
	vxrt.EnvFixed("NO_COLOR", "1")
	dir := vxrt.Dir()
	c := WithConfig(Dir(dir), Filename("f"))
	list := vxrt.Bool("list-value")
	fresh := vxrt.Bool("fresh-result")
	doc := `{"k":1,"user":{"name":"n","token":"secret"}}`
	want := "{\n \"k\": 1,\n \"user\": {\n  \"name\": \"n\",\n  \"token\": \"REDACTED\"\n }\n}"
	cb := func(v any) (any, error) {
		m := v.(map[string]any)
		if fresh {
			return map[string]any{"name": m["name"], "token": "REDACTED"}, nil
		}
		m["token"] = "REDACTED"
		return m, nil
	}
	if list {
		doc = `{"k":1,"user":["n","secret"]}`
		want = "{\n \"k\": 1,\n \"user\": [\n  \"n\",\n  \"REDACTED\"\n ]\n}"
		cb = func(v any) (any, error) {
			l := v.([]any)
			if fresh {
				return []any{l[0], "REDACTED"}, nil
			}
			l[1] = "REDACTED"
			return l, nil
		}
	}
	t := vxNewT("TestM")
	if vxrt.Bool("standalone") {
		c.MatchStandaloneJSON(t, doc, match.Custom("user", cb))
		t.end()
		vxrt.Assert(len(t.errors) == 0 && vxReadFile(dir+"/f_1.snap.json") == want, "C15:callback-result-is-what-is-stored")
		return
	}
	c.MatchJSON(t, doc, match.Custom("user", cb))
	t.end()
	vxrt.Assert(len(t.errors) == 0 && vxReadFile(dir+"/f.snap") == vxFrame("TestM - 1", want), "C15:callback-result-is-what-is-stored")
}
