//go:build verif || verif_replay

package snaps

import (
	"errors"
	"strings"

	"github.com/gkampitakis/go-snaps/internal/vxrt"
	"github.com/gkampitakis/go-snaps/match"
)

// envMatcher is an arbitrary matcher: the JSONMatcher / YAMLMatcher interface
// is the environment boundary, so a matcher is "some bytes and some errors".
type vxEnvMatcher struct {
	out  []byte
	errs []match.MatcherError
	got  string // the document this matcher was handed
	ran  bool
}

func (m *vxEnvMatcher) JSON(b []byte) ([]byte, []match.MatcherError) {
	m.got, m.ran = string(b), true
	if m.out == nil {
		return b, m.errs
	}
	return m.out, m.errs
}
func (m *vxEnvMatcher) YAML(b []byte) ([]byte, []match.MatcherError) { return m.JSON(b) }

var vxErrEnv = errors.New("reason-x")

func vxSymMatcher(k int) *vxEnvMatcher {
	m := &vxEnvMatcher{}
	nerr := vxrt.Choice("matcher-errors", 3)
	names := []string{"Any", "Type", "Custom"}
	for e := 0; e < nerr; e++ {
		path := "p" + vxItoa(k) + "." + vxItoa(e)
		if k == 0 && e == 0 {
			// paths are arbitrary text (gjson queries contain %, quotes, ...)
			path += vxrt.Text("path-suffix", vxrt.Len("path-suffix-len", 0, 1))
		}
		m.errs = append(m.errs, match.MatcherError{Reason: vxErrEnv, Matcher: names[(k+e)%3] + "M" + vxItoa(k), Path: path})
	}
	if vxrt.Bool("matcher-rewrites") {
		m.out = []byte(`{"m":` + vxItoa(k) + `}`)
	}
	return m
}

// H_C17_matcher_errors: any matcher error makes the call report exactly one
// failure naming every failing matcher and path, nothing is written, and the
// next call of the test keeps its slot; without errors the comparison proceeds.
func H_C17_matcher_errors() {
	vxrt.CISymbolic()
	vxrt.YAMLAssume(true)
	vxrt.EnvSymbolic("UPDATE_SNAPS", 4)
	vxrt.EnvFixed("NO_COLOR", "1")
	dir := vxrt.Dir()
	opt := vxrt.Choice("update-option", 3)
	api := vxrt.Choice("api", 3) // MatchJSON, MatchYAML, MatchStandaloneJSON
	c := vxCfgWithOpt(dir, opt)
	nm := vxrt.Len("matchers", 1, vxrt.Param("matchers", 2))
	ms := make([]*vxEnvMatcher, nm)
	total := 0
	for k := range ms {
		ms[k] = vxSymMatcher(k)
		total += len(ms[k].errs)
	}
	vxrt.Assume(total > 0)
	state := vxrt.Choice("entry-state", 2) // missing or present
	if state == 1 {
		if api < 2 {
			vxWriteFile(dir+"/f.snap", vxFrame("TestM - 1", `{"a":1}`))
		} else {
			vxWriteFile(dir+"/f_1.snap.json", `{"a":1}`)
		}
	}
	stamp := vxrt.FSStamp()
	before := vxDumpDir(dir)
	vxForceInit()
	failedBefore := testEvents.items[erred]
	t := vxNewT("TestM")
	doc := `{"a":1}`
	switch api {
	case 0:
		jm := make([]match.JSONMatcher, nm)
		for k := range ms {
			jm[k] = ms[k]
		}
		c.MatchJSON(t, doc, jm...)
	case 1:
		ym := make([]match.YAMLMatcher, nm)
		for k := range ms {
			ym[k] = ms[k]
		}
		c.MatchYAML(t, doc, ym...)
	default:
		jm := make([]match.JSONMatcher, nm)
		for k := range ms {
			jm[k] = ms[k]
		}
		c.MatchStandaloneJSON(t, doc, jm...)
	}
	vxrt.Assert(len(t.errors) == 1 && len(t.logs) == 0, "C17:exactly-one-failure")
	vxrt.Assert(testEvents.items[erred] == failedBefore+1, "C17:failure-is-counted-once")
	vxrt.Assert(vxrt.FSStamp() == stamp && vxrt.Eq(vxDumpDir(dir), before), "C17:nothing-written")
	msg, _ := t.errors[0].(string)
	named := true
	for k := range ms {
		for _, e := range ms[k].errs {
			named = named && strings.Contains(msg, "match."+e.Matcher+"(\""+e.Path+"\") - reason-x")
		}
	}
	vxrt.Assert(named, "C17:every-failing-matcher-and-path-named")
	// every matcher ran, on the document as left by the matchers before it that succeeded
	// (what a failing matcher returns besides its errors is not used)
	cur := doc
	for k := range ms {
		vxrt.Assert(ms[k].ran && ms[k].got == cur, "C17:later-matchers-see-the-document-of-the-successful-ones")
		if len(ms[k].errs) == 0 && ms[k].out != nil {
			cur = string(ms[k].out)
		}
	}
	// the failing call consumed its ordinal: the next call addresses slot 2
	if api < 2 {
		vxrt.Assert(testsRegistry.running[dir+"/f.snap"]["TestM"] == 1, "C17:ordinal-consumed")
	} else {
		vxrt.Assert(standaloneTestsRegistry.running[dir+"/f_%d.snap.json"] == 1, "C17:ordinal-consumed")
	}
	t.end()
}

// H_C17_real: the real Any / Type / Custom JSON matchers: a missing path, a
// value of the wrong type (including null) and a callback error each fail the
// call once, naming matcher and path, and write nothing; with
// ErrOnMissingPath(false) a missing path is ignored and the rest proceeds.
func H_C17_real() {
	vxrt.CI(false)
	vxrt.EnvFixed("NO_COLOR", "1")
	dir := vxrt.Dir()
	c := WithConfig(Dir(dir), Filename("f"))
	// document: {"s":<string>,"v":<string|number|null|bool>}
	v := []string{`"x"`, "3", "null", "true"}[vxrt.Choice("value-kind", 4)]
	doc := `{"s":"a","v":` + v + `}`
	path := []string{"v", "missing"}[vxrt.Choice("path", 2)]
	tolerant := vxrt.Bool("err-on-missing-path-false")
	var m match.JSONMatcher
	name := ""
	expectErr := false
	switch vxrt.Choice("matcher", 3) {
	case 0:
		name = "Any"
		if vxrt.Bool("setters-as-statements") {
			// the setters configure the matcher they are called on (the README chains them, but
			// nothing says they must be chained)
			am := match.Any(path)
			am.ErrOnMissingPath(!tolerant)
			m = am
		} else {
			m = match.Any(path).ErrOnMissingPath(!tolerant)
		}
		expectErr = path == "missing" && !tolerant
	case 1:
		name = "Type"
		if vxrt.Bool("setters-as-statements") {
			tm := match.Type[string](path)
			tm.ErrOnMissingPath(!tolerant)
			m = tm
		} else {
			m = match.Type[string](path).ErrOnMissingPath(!tolerant)
		}
		expectErr = path == "missing" && !tolerant || path == "v" && v != `"x"`
	default:
		name = "Custom"
		fail := vxrt.Bool("callback-fails")
		m = match.Custom(path, func(val any) (any, error) {
			if fail {
				return nil, vxErrEnv
			}
			return "c", nil
		}).ErrOnMissingPath(!tolerant)
		expectErr = path == "missing" && !tolerant || path == "v" && fail
	}
	if vxrt.Bool("scalar-document") {
		// a document that is a bare scalar has no members: every path is missing, the second
		// matcher (Any on s, which insists on its path) fails whatever the first one does
		doc = []string{"42", `"text"`, "null"}[vxrt.Choice("scalar", 3)]
		expectErr = true
		if path == "v" || tolerant {
			path, name = "s", "Any"
		}
	}
	standalone := vxrt.Bool("standalone")
	empty := vxDumpDir(dir)
	t := vxNewT("TestR")
	if standalone {
		c.MatchStandaloneJSON(t, doc, m, match.Any("s"))
	} else {
		c.MatchJSON(t, doc, m, match.Any("s"))
	}
	t.end()
	if expectErr {
		vxrt.Reach("error")
		vxrt.Assert(len(t.errors) == 1 && len(t.logs) == 0, "C17:matcher-failure-fails-once")
		vxrt.Assert(vxrt.Eq(vxDumpDir(dir), empty), "C17:matcher-failure-writes-nothing")
		msg, _ := t.errors[0].(string)
		vxrt.Assert(strings.Contains(msg, "match."+name+"(\""+path+"\")"), "C17:failing-matcher-and-path-named")
		return
	}
	vxrt.Reach("ok")
	vxrt.Assert(len(t.errors) == 0 && len(t.logs) == 1, "C17:no-failure-comparison-proceeds")
	// the remaining matcher (Any on s) was applied, and the tolerated missing path left the value alone
	stored := vxReadFile(dir + "/f.snap")
	if standalone {
		stored = vxReadFile(dir + "/f_1.snap.json")
	}
	vxrt.Assert(strings.Contains(stored, "<Any value>"), "C17:remaining-matchers-applied")
	if path == "missing" {
		vxrt.Assert(strings.Contains(stored, "\"v\": "+v), "C17:ignored-missing-path-leaves-document-alone")
	}
}

// H_C17_more: (a) Type on composite values: an object is not a list and a list is not an object,
// whichever of the two the matcher expects; (b) two different matchers failing on the same missing
// path, next to each other: one failure that names both.
func H_C17_more() {
	vxrt.CI(false)
	vxrt.EnvPresent("NO_COLOR") // with and without colours
	dir := vxrt.Dir()
	c := WithConfig(Dir(dir), Filename("f"))
	doc := `{"items":[1,2],"obj":{"a":1},"s":"a"}`
	// the missing path of scenario (b): plain, or with a character special to format strings
	token := []string{"token", "vat%", "100%s"}[vxrt.Choice("missing-path", 3)]
	standalone := vxrt.Bool("standalone")
	empty := vxDumpDir(dir)
	t := vxNewT("TestR")
	call := func(ms ...match.JSONMatcher) {
		if standalone {
			c.MatchStandaloneJSON(t, doc, ms...)
		} else {
			c.MatchJSON(t, doc, ms...)
		}
		t.end()
	}
	if vxrt.Bool("composite-type") {
		path := []string{"items", "obj"}[vxrt.Choice("path", 2)]
		wantList := vxrt.Bool("expects-list")
		if wantList {
			call(match.Type[[]any](path))
		} else {
			call(match.Type[map[string]any](path))
		}
		if wantList == (path == "items") {
			vxrt.Assert(len(t.errors) == 0 && len(t.logs) == 1, "C17:no-failure-comparison-proceeds")
		} else {
			vxrt.Assert(len(t.errors) == 1 && len(t.logs) == 0, "C17:matcher-failure-fails-once")
			vxrt.Assert(vxrt.Eq(vxDumpDir(dir), empty), "C17:matcher-failure-writes-nothing")
		}
		return
	}
	if vxrt.Bool("a-path-and-its-descendant-in-one-matcher") {
		// paths take effect left to right: once `obj` is replaced by the placeholder, `obj.a` is gone
		call(match.Any("obj", "obj.a"))
		vxrt.Assert(len(t.errors) == 1 && len(t.logs) == 0, "C17:matcher-failure-fails-once")
		vxrt.Assert(vxrt.Eq(vxDumpDir(dir), empty), "C17:matcher-failure-writes-nothing")
		msg, _ := t.errors[0].(string)
		vxrt.Assert(strings.Contains(msg, `match.Any("obj.a")`), "C17:failing-matcher-and-path-named")
		return
	}
	cb := func(val any) (any, error) { return "c", nil }
	pair := vxrt.Choice("pair", 3)
	names := [][2]string{{"Type", "Custom"}, {"Any", "Custom"}, {"Custom", "Type"}}[pair]
	mk := func(n string) match.JSONMatcher {
		switch n {
		case "Type":
			return match.Type[string](token)
		case "Any":
			return match.Any(token)
		}
		return match.Custom(token, cb)
	}
	call(mk(names[0]), mk(names[1]))
	vxrt.Assert(len(t.errors) == 1 && len(t.logs) == 0, "C17:matcher-failure-fails-once")
	vxrt.Assert(vxrt.Eq(vxDumpDir(dir), empty), "C17:matcher-failure-writes-nothing")
	msg, _ := t.errors[0].(string)
	vxrt.Assert(strings.Contains(msg, "match."+names[0]+"(\""+token+"\")") && strings.Contains(msg, "match."+names[1]+"(\""+token+"\")"), "C17:failing-matcher-and-path-named")
}
