//go:build verif || verif_replay

package snaps

import (
	"errors"
	"strings"

	"github.com/gkampitakis/go-snaps/internal/vxrt"
	"github.com/gkampitakis/go-snaps/match"
)

// envMatcher is an arbitrary matcher: the JSONMatcher / YAMLMatcher interface
// is the environment boundary, so a matcher is "some bytes and some errors".
type envMatcher struct {
	out  []byte
	errs []match.MatcherError
	got  string // the document this matcher was handed
	ran  bool
}

func (m *envMatcher) JSON(b []byte) ([]byte, []match.MatcherError) {
	m.got, m.ran = string(b), true
	if m.out == nil {
		return b, m.errs
	}
	return m.out, m.errs
}
func (m *envMatcher) YAML(b []byte) ([]byte, []match.MatcherError) { return m.JSON(b) }

var errEnv = errors.New("reason-x")

func symMatcher(k int) *envMatcher {
	m := &envMatcher{}
	nerr := vxrt.Choice("matcher-errors", 3)
	names := []string{"Any", "Type", "Custom"}
	for e := 0; e < nerr; e++ {
		path := "p" + itoa(k) + "." + itoa(e)
		if k == 0 && e == 0 {
			// paths are arbitrary text (gjson queries contain %, quotes, ...)
			path += vxrt.Text("path-suffix", vxrt.Len("path-suffix-len", 0, 1))
		}
		m.errs = append(m.errs, match.MatcherError{Reason: errEnv, Matcher: names[(k+e)%3] + "M" + itoa(k), Path: path})
	}
	if vxrt.Bool("matcher-rewrites") {
		m.out = []byte(`{"m":` + itoa(k) + `}`)
	}
	return m
}

// H_C17_matcher_errors: any matcher error makes the call report exactly one
// failure naming every failing matcher and path, nothing is written, and the
// next call of the test keeps its slot; without errors the comparison proceeds.
func H_C17_matcher_errors() {
	vxrt.CISymbolic()
	vxrt.YAMLAssume(true)
	vxrt.EnvSymbolic("UPDATE_SNAPS", 4)
	vxrt.EnvFixed("NO_COLOR", "1")
	dir := vxrt.Dir()
	opt := vxrt.Choice("update-option", 3)
	api := vxrt.Choice("api", 3) // MatchJSON, MatchYAML, MatchStandaloneJSON
	c := cfgWithOpt(dir, opt)
	nm := vxrt.Len("matchers", 1, vxrt.Param("matchers", 2))
	ms := make([]*envMatcher, nm)
	total := 0
	for k := range ms {
		ms[k] = symMatcher(k)
		total += len(ms[k].errs)
	}
	vxrt.Assume(total > 0)
	state := vxrt.Choice("entry-state", 2) // missing or present
	if state == 1 {
		if api < 2 {
			writeFile(dir+"/f.snap", frame("TestM - 1", `{"a":1}`))
		} else {
			writeFile(dir+"/f_1.snap.json", `{"a":1}`)
		}
	}
	stamp := vxrt.FSStamp()
	before := dumpDir(dir)
	forceInit()
	failedBefore := testEvents.items[erred]
	t := newT("TestM")
	doc := `{"a":1}`
	switch api {
	case 0:
		jm := make([]match.JSONMatcher, nm)
		for k := range ms {
			jm[k] = ms[k]
		}
		c.MatchJSON(t, doc, jm...)
	case 1:
		ym := make([]match.YAMLMatcher, nm)
		for k := range ms {
			ym[k] = ms[k]
		}
		c.MatchYAML(t, doc, ym...)
	default:
		jm := make([]match.JSONMatcher, nm)
		for k := range ms {
			jm[k] = ms[k]
		}
		c.MatchStandaloneJSON(t, doc, jm...)
	}
	vxrt.Assert(len(t.errors) == 1 && len(t.logs) == 0, "C17:exactly-one-failure")
	vxrt.Assert(testEvents.items[erred] == failedBefore+1, "C17:failure-is-counted-once")
	vxrt.Assert(vxrt.FSStamp() == stamp && vxrt.Eq(dumpDir(dir), before), "C17:nothing-written")
	msg, _ := t.errors[0].(string)
	named := true
	for k := range ms {
		for _, e := range ms[k].errs {
			named = named && strings.Contains(msg, "match."+e.Matcher+"(\""+e.Path+"\") - reason-x")
		}
	}
	vxrt.Assert(named, "C17:every-failing-matcher-and-path-named")
	// every matcher ran, on the document as left by the matchers before it that succeeded
	// (what a failing matcher returns besides its errors is not used)
	cur := doc
	for k := range ms {
		vxrt.Assert(ms[k].ran && ms[k].got == cur, "C17:later-matchers-see-the-document-of-the-successful-ones")
		if len(ms[k].errs) == 0 && ms[k].out != nil {
			cur = string(ms[k].out)
		}
	}
	// the failing call consumed its ordinal: the next call addresses slot 2
	if api < 2 {
		vxrt.Assert(testsRegistry.running[dir+"/f.snap"]["TestM"] == 1, "C17:ordinal-consumed")
	} else {
		vxrt.Assert(standaloneTestsRegistry.running[dir+"/f_%d.snap.json"] == 1, "C17:ordinal-consumed")
	}
	t.end()
}

// H_C17_real: the real Any / Type / Custom JSON matchers: a missing path, a
// value of the wrong type (including null) and a callback error each fail the
// call once, naming matcher and path, and write nothing; with
// ErrOnMissingPath(false) a missing path is ignored and the rest proceeds.
func H_C17_real() {
	vxrt.CI(false)
	vxrt.EnvFixed("NO_COLOR", "1")
	dir := vxrt.Dir()
	c := WithConfig(Dir(dir), Filename("f"))
	// document: {"s":<string>,"v":<string|number|null|bool>}
	v := []string{`"x"`, "3", "null", "true"}[vxrt.Choice("value-kind", 4)]
	doc := `{"s":"a","v":` + v + `}`
	path := []string{"v", "missing"}[vxrt.Choice("path", 2)]
	tolerant := vxrt.Bool("err-on-missing-path-false")
	var m match.JSONMatcher
	name := ""
	expectErr := false
	switch vxrt.Choice("matcher", 3) {
	case 0:
		name = "Any"
		m = match.Any(path).ErrOnMissingPath(!tolerant)
		expectErr = path == "missing" && !tolerant
	case 1:
		name = "Type"
		m = match.Type[string](path).ErrOnMissingPath(!tolerant)
		expectErr = path == "missing" && !tolerant || path == "v" && v != `"x"`
	default:
		name = "Custom"
		fail := vxrt.Bool("callback-fails")
		m = match.Custom(path, func(val any) (any, error) {
			if fail {
				return nil, errEnv
			}
			return "c", nil
		}).ErrOnMissingPath(!tolerant)
		expectErr = path == "missing" && !tolerant || path == "v" && fail
	}
	standalone := vxrt.Bool("standalone")
	empty := dumpDir(dir)
	t := newT("TestR")
	if standalone {
		c.MatchStandaloneJSON(t, doc, m, match.Any("s"))
	} else {
		c.MatchJSON(t, doc, m, match.Any("s"))
	}
	t.end()
	if expectErr {
		vxrt.Reach("error")
		vxrt.Assert(len(t.errors) == 1 && len(t.logs) == 0, "C17:matcher-failure-fails-once")
		vxrt.Assert(vxrt.Eq(dumpDir(dir), empty), "C17:matcher-failure-writes-nothing")
		msg, _ := t.errors[0].(string)
		vxrt.Assert(strings.Contains(msg, "match."+name+"(\""+path+"\")"), "C17:failing-matcher-and-path-named")
		return
	}
	vxrt.Reach("ok")
	vxrt.Assert(len(t.errors) == 0 && len(t.logs) == 1, "C17:no-failure-comparison-proceeds")
	// the remaining matcher (Any on s) was applied, and the tolerated missing path left the value alone
	stored := readFile(dir + "/f.snap")
	if standalone {
		stored = readFile(dir + "/f_1.snap.json")
	}
	vxrt.Assert(strings.Contains(stored, "<Any value>"), "C17:remaining-matchers-applied")
	if path == "missing" {
		vxrt.Assert(strings.Contains(stored, "\"v\": "+v), "C17:ignored-missing-path-leaves-document-alone")
	}
}
