//go:build verif || verif_replay

package snaps

import (
	"regexp"
	"strings"

	"github.com/gkampitakis/go-snaps/internal/vxrt"
)

// runSelects is the harness's reference model of `go test -run P` for patterns
// of the modelled class ([^]literal[$] per /-separated level): level i of the
// pattern is matched against element i of the test name; a test runs if every
// level it has matches (deeper pattern levels are irrelevant to whether the
// parents run; a sub-test deeper than the pattern runs if its ancestors do).
func vxRunSelects(pattern, name string) bool {
	if pattern == "" {
		return true
	}
	pl := strings.Split(pattern, "/")
	nl := strings.Split(name, "/")
	for i := range nl {
		if i >= len(pl) {
			break
		}
		if !vxLevelMatch(pl[i], nl[i]) {
			return false
		}
	}
	return true
}

func vxLevelMatch(p, s string) bool {
	pre := strings.HasPrefix(p, "^")
	if pre {
		p = p[1:]
	}
	suf := strings.HasSuffix(p, "$")
	if suf {
		p = p[:len(p)-1]
	}
	switch {
	case pre && suf:
		return s == p
	case pre:
		return strings.HasPrefix(s, p)
	case suf:
		return strings.HasSuffix(s, p)
	}
	return strings.Contains(s, p)
}

// H_C08_skip: entries and files of tests that did not run because they (or an
// ancestor) called snaps.Skip*, or because -run did not select them, are never
// deleted or listed; a skip of N protects N and N/..., not NX.
func H_C08_skip() {
	vxrt.CI(false)
	vxrt.EnvFixed("UPDATE_SNAPS", "clean")
	vxrt.EnvFixed("NO_COLOR", "1")
	dir := vxrt.Dir() + "/__snapshots__"
	path := dir + "/f_test.snap"
	vxrt.Flag("test.count", "1")

	// the package has four tests; each may be skipped through the wrappers or run
	tests := []string{"TestA", "TestA/sub", "TestA/sub/deep", "TestAB", "TestC", "Test1", "TestOX", "TestD", "TestD/x1"}
	bodies := map[string]string{}
	content := ""
	for _, tn := range tests {
		bodies[tn] = "v-" + tn
		content += vxFrame(tn+" - 1", bodies[tn])
	}
	// a stale entry of TestAB: a skip of TestA must not protect it (TestAB merely shares the prefix)
	staleAB := vxFrame("TestAB - 2", "stale-of-AB")
	content += staleAB
	vxWriteFile(path, content)
	// the test source that owns the file
	k7 := vxrt.Param("known_K7", 1) == 0
	if k7 {
		// known finding K7: the test file also declares a test that stores no snapshots; when -run
		// selects only that one, the file of its (unselected) neighbours counts as live-checked
		vxrt.TestSources(vxrt.Dir()+"/f_test.go", "TestA", "TestAB", "TestC", "Test1", "TestOX", "TestD", "TestGX")
	} else {
		vxrt.TestSources(vxrt.Dir()+"/f_test.go", "TestA", "TestAB", "TestC", "Test1", "TestOX", "TestD")
	}
	// a stale snapshot file whose test source declares TestO (a test that stores nothing any more):
	// skipping TestOX must not protect it
	vxWriteFile(dir+"/old_test.snap", vxFrame("TestO - 1", "gone"))
	vxrt.TestSources(vxrt.Dir()+"/old_test.go", "TestO")

	// p_test.go: TestP with sub-tests b (no snapshot) and c (one snapshot in p_test.snap)
	ppath := dir + "/p_test.snap"
	vxWriteFile(ppath, vxFrame("TestP/c - 1", "pc"))
	vxrt.TestSources(vxrt.Dir()+"/p_test.go", "TestP")
	cp := WithConfig(Dir(dir), Filename("p_test"), Update(false))

	// z_test.go declares only a fuzz target, which skips through the wrapper in skip mode;
	// its snapshot file must be protected like any other
	zpath := dir + "/z_test.snap"
	vxWriteFile(zpath, vxFrame("FuzzZ - 1", "fz"))
	vxrt.TestSources(vxrt.Dir()+"/z_test.go", "FuzzZ")

	// a.b_test.go (a dot in the test file's name) declares TestDot, which owns a.b_test.snap
	dotpath := dir + "/a.b_test.snap"
	vxWriteFile(dotpath, vxFrame("TestDot - 1", "dot"))
	vxrt.TestSources(vxrt.Dir()+"/a.b_test.go", "TestDot")
	cdot := WithConfig(Dir(dir), Filename("a.b_test"), Update(false))

	// a second test file in the same package whose test always runs, so that the
	// snapshot directory is visited by Clean
	vxrt.TestSources(vxrt.Dir()+"/g_test.go", "TestG")
	cg := WithConfig(Dir(dir), Filename("g_test"))

	// a standalone snapshot and a custom-named multi-entry file owned by TestC
	// (known finding K3: under -run such files of unselected tests are not protected)
	k3 := vxrt.Param("known_K3", 1) == 0
	if k3 {
		vxWriteFile(dir+"/TestC_1.snap", "standalone-of-C")
		vxWriteFile(dir+"/custom.snap", vxFrame("TestC - 1", "custom-of-C"))
	}
	cCustom := WithConfig(Dir(dir), Filename("custom"), Update(false))
	cStand := WithConfig(Dir(dir), Update(false))

	mode := vxrt.Choice("mode", 2)
	ran := map[string]bool{}
	c := WithConfig(Dir(dir), Filename("f_test"), Update(false))
	pattern := ""
	if mode == 0 {
		// skips through the wrappers, no -run filter
		vxrt.Reach("skip-mode")
		vxrt.Flag("test.run", "")
		skipA := vxrt.Bool("skip-TestA")
		skipSub := vxrt.Bool("skip-TestA/sub")
		skipC := vxrt.Bool("skip-TestC")
		skipAB := vxrt.Bool("skip-TestAB")
		skip1 := vxrt.Bool("skip-Test1")
		skipOX := vxrt.Bool("skip-TestOX")
		wrapper := vxrt.Choice("wrapper", 3)
		doSkip := func(t *vxMockT) {
			switch wrapper {
			case 0:
				Skip(t, "why")
			case 1:
				Skipf(t, "why %d", 1)
			default:
				SkipNow(t)
			}
		}
		for _, tn := range tests {
			t := vxNewT(tn)
			skipped := tn == "TestA" && skipA || (tn == "TestA/sub" || tn == "TestA/sub/deep") && (skipA || skipSub) || tn == "TestC" && skipC || tn == "TestAB" && skipAB || tn == "Test1" && skip1 || tn == "TestOX" && skipOX
			if skipped {
				// a descendant of a skipped test does not even start
				if !(tn == "TestA/sub" && skipA) && tn != "TestA/sub/deep" {
					doSkip(t)
				}
				continue
			}
			c.MatchSnapshot(t, bodies[tn])
			t.end()
			ran[tn] = true
			vxrt.Assert(len(t.errors) == 0, "setup:passes")
		}
	} else {
		// -run filter of the modelled class: [^]literal[$] with a symbolic literal
		vxrt.Reach("run-mode")
		lit := vxrt.Text("run-literal", vxrt.Len("run-literal-len", 1, vxrt.Param("lit", 2)))
		for i := 0; i < len(lit); i++ {
			ch := lit[i]
			vxrt.Assume(vxrt.Or(vxrt.And(ch >= 'A', ch <= 'C'), vxrt.Or(vxrt.And(ch >= 's', ch <= 'u'), vxrt.Or(vxrt.Or(vxrt.Or(ch == 'T', ch == 'e'), ch == '1'), vxrt.Or(ch == 'G', ch == 'X')))))
		}
		pattern = lit
		if vxrt.Bool("anchor-start") {
			pattern = "^" + pattern
		}
		if vxrt.Bool("anchor-end") {
			pattern = pattern + "$"
		}
		if vxrt.Bool("leading-slash") {
			// -run /x: an empty first element selects every top-level test, x filters the sub-tests
			pattern = "/" + pattern
		} else if vxrt.Bool("second-level") {
			// a sub-test level: /b, /c or /sub
			pattern += "/" + []string{"b", "c", "sub", "deep"}[vxrt.Choice("second-level-literal", 4)]
		}
		vxrt.Flag("test.run", pattern)
		if vxrt.Param("known_K4", 0) == 1 {
			// (was known finding K4, fixed in /repo: the exclusion is off by default): the -run pattern, applied as one unanchored regexp to the
			// whole entry id "name - n", matches the id of a test that go test did not select
			for _, tn := range append(append([]string{}, tests...), "TestP/c") {
				m, _ := regexp.MatchString(pattern, tn+" - 1")
				sel := vxRunSelects(pattern, tn) && (tn != "TestA/sub" || vxRunSelects(pattern, "TestA")) && (tn != "TestP/c" || vxRunSelects(pattern, "TestP"))
				vxrt.Assume(vxrt.Not(vxrt.And(m, !sel)))
			}
		}
		for _, tn := range tests {
			if !vxRunSelects(pattern, tn) {
				continue
			}
			// parents must be selected too
			if tn == "TestA/sub" && !vxRunSelects(pattern, "TestA") {
				continue
			}
			if tn == "TestA/sub/deep" && !(vxRunSelects(pattern, "TestA") && vxRunSelects(pattern, "TestA/sub")) {
				continue
			}
			t := vxNewT(tn)
			if tn == "TestC" && vxrt.Bool("selected-test-skips") {
				// a test that -run selects but that skips itself through the wrapper
				Skip(t, "why")
				continue
			}
			c.MatchSnapshot(t, bodies[tn])
			if k3 && tn == "TestC" {
				cCustom.MatchSnapshot(t, "custom-of-C")
				cStand.MatchStandaloneSnapshot(t, "standalone-of-C")
			}
			t.end()
			ran[tn] = true
			vxrt.Assert(len(t.errors) == 0, "setup:passes")
		}
	}
	anyRan := len(ran) > 0
	if mode == 0 {
		SkipNow(vxNewT("FuzzZ"))
	}
	dotRan := false
	if mode == 0 && vxrt.Bool("skip-TestDot") {
		Skip(vxNewT("TestDot"), "why")
	} else if vxRunSelects(pattern, "TestDot") {
		td := vxNewT("TestDot")
		cdot.MatchSnapshot(td, "dot")
		td.end()
		dotRan = true
	}
	if mode == 0 {
		// TestP runs (it stores nothing itself); its sub-test c either skips through the wrapper or runs
		tc := vxNewT("TestP/c")
		if vxrt.Bool("skip-TestP/c") {
			SkipNow(tc)
		} else {
			cp.MatchSnapshot(tc, "pc")
			tc.end()
		}
	}
	// TestP has two sub-tests; only TestP/c stores a snapshot (in p_test.snap)
	pRanC := false
	if mode == 1 && vxRunSelects(pattern, "TestP") {
		if vxRunSelects(pattern, "TestP/c") {
			tc := vxNewT("TestP/c")
			cp.MatchSnapshot(tc, "pc")
			tc.end()
			pRanC = true
		}
	}
	if mode == 1 && !anyRan && vxRunSelects(pattern, "TestG") {
		vxrt.Reach("only-other-file-selected")
	}
	if vxRunSelects(pattern, "TestG") {
		tg := vxNewT("TestG")
		cg.MatchSnapshot(tg, "g")
		tg.end()
	}

	Clean(nil)
	out := vxrt.Stdout()
	if ran["TestAB"] {
		// TestAB ran and made one call: its second entry is stale whatever was skipped
		_, _, err := vxRefPrev("[TestAB - 2]", path)
		stillThere := err == nil
		if mode == 0 {
			vxrt.Reach("prefix-sibling-stale")
			vxrt.Assert(!stillThere, "C08:skip-does-not-protect-prefix-sibling")
			vxrt.Assert(strings.Contains(out, vxBullet+"TestAB - 2\n"), "C08:stale-entry-of-prefix-sibling-reported")
		}
	}
	if mode == 0 {
		vxrt.Assert(vxReadFile(zpath) == vxFrame("FuzzZ - 1", "fz"), "C08:file-of-skipped-fuzz-target-kept")
	}
	if !dotRan {
		vxrt.Assert(vxReadFile(dotpath) == vxFrame("TestDot - 1", "dot") && !strings.Contains(out, "a.b_test.snap"), "C08:file-of-a-test-file-with-a-dotted-name-kept")
	}
	if mode == 0 {
		// p_test.snap is either addressed or protected by the skip of TestP/c
		vxrt.Assert(vxReadFile(ppath) == vxFrame("TestP/c - 1", "pc"), "C08:file-of-skipped-subtest-kept")
		vxrt.Assert(!strings.Contains(out, "p_test.snap"), "C08:file-of-skipped-subtest-not-listed")
		// old_test.snap is stale whatever was skipped (TestOX merely shares a prefix with TestO)
		vxrt.Assert(vxReadFile(dir+"/old_test.snap") == "<missing>", "C08:skip-does-not-protect-file-of-prefix-sibling")
	}
	if k3 && mode == 1 && !ran["TestC"] {
		vxrt.Assert(vxReadFile(dir+"/TestC_1.snap") == "standalone-of-C", "C08:standalone-file-of-unselected-test-kept")
		vxrt.Assert(vxReadFile(dir+"/custom.snap") == vxFrame("TestC - 1", "custom-of-C"), "C08:custom-named-file-of-unselected-test-kept")
	}
	if mode == 1 && !pRanC {
		vxrt.Assert(vxReadFile(ppath) == vxFrame("TestP/c - 1", "pc"), "C08:file-of-filtered-out-subtest-kept")
		vxrt.Assert(!strings.Contains(out, "p_test.snap"), "C08:file-of-filtered-out-subtest-not-listed")
	}
	for _, tn := range tests {
		if ran[tn] {
			continue
		}
		// did not run: must be protected
		if !anyRan {
			// the file was not addressed at all: it must survive as a whole
			vxrt.Assert(vxReadFile(path) == content, "C08:file-of-tests-that-did-not-run-kept")
			vxrt.Assert(!strings.Contains(out, "f_test.snap"), "C08:file-of-tests-that-did-not-run-not-listed")
			continue
		}
		got, _, err := vxRefPrev("["+tn+" - 1]", path)
		vxrt.Assert(err == nil && got == bodies[tn], "C08:entry-of-test-that-did-not-run-kept")
		vxrt.Assert(!strings.Contains(out, vxBullet+tn+" - 1\n"), "C08:entry-of-test-that-did-not-run-not-listed")
	}
}

// H_C08_midskip: a test that records or replays its first snapshot and then skips itself through
// a wrapper keeps its remaining entries (they are neither listed nor removed), and a skip
// somewhere in the package does not hide genuinely stale files: a stale standalone file and a
// stale custom-named file (neither has a test source of its own) are still reported and, in
// clean mode, removed.
func H_C08_midskip() {
	vxrt.CI(false)
	vxrt.EnvFixed("UPDATE_SNAPS", "clean")
	vxrt.EnvFixed("NO_COLOR", "1")
	vxrt.Flag("test.count", "1")
	vxrt.Flag("test.run", "")
	dir := vxrt.Dir() + "/__snapshots__"
	path := dir + "/f_test.snap"
	content := vxFrame("TestM - 1", "one") + vxFrame("TestM - 2", "two") + vxFrame("TestG - 1", "g")
	vxWriteFile(path, content)
	vxrt.TestSources(vxrt.Dir()+"/f_test.go", "TestM", "TestG", "TestK")
	vxWriteFile(dir+"/TestOld_1.snap", "stale standalone")
	vxWriteFile(dir+"/legacy.snap", vxFrame("TestOld - 1", "stale custom-named"))
	c := WithConfig(Dir(dir), Filename("f_test"), Update(false))
	tm := vxNewT("TestM")
	midSkip := vxrt.Bool("TestM-skips-after-its-first-snapshot")
	wrapper := 0
	if midSkip {
		wrapper = vxrt.Choice("wrapper", 3)
	}
	// the body runs on a goroutine of its own and a skip ends it there, as with a real testing.T
	vxRunTest(tm, func() {
		c.MatchSnapshot(tm, "one")
		if midSkip {
			switch wrapper {
			case 0:
				Skip(tm, "not today")
			case 1:
				Skipf(tm, "not %s", "today")
			default:
				SkipNow(tm)
			}
			vxrt.Assert(false, "setup:skip-ends-the-test-body")
		} else {
			c.MatchSnapshot(tm, "two")
		}
	})
	if vxrt.Bool("an-unrelated-test-skips") {
		SkipNow(vxNewT("TestK"))
	}
	tg := vxNewT("TestG")
	c.MatchSnapshot(tg, "g")
	tg.end()
	vxrt.Assert(len(tm.errors)+len(tg.errors) == 0, "setup:passes")
	Clean(nil)
	out := vxrt.Stdout()
	vxrt.Assert(vxReadFile(path) == content, "C08:entries-of-a-test-that-skipped-half-way-kept")
	vxrt.Assert(!strings.Contains(out, vxBullet+"TestM - 2\n"), "C08:entries-of-a-test-that-skipped-half-way-not-listed")
	vxrt.Assert(strings.Contains(out, "TestOld_1.snap\n") && vxReadFile(dir+"/TestOld_1.snap") == "<missing>", "C09:stale-standalone-reported-and-removed-despite-a-skip")
	vxrt.Assert(strings.Contains(out, "legacy.snap\n") && vxReadFile(dir+"/legacy.snap") == "<missing>", "C09:stale-custom-named-file-reported-and-removed-despite-a-skip")
}

// H_C08_siblings: several skipped sub-tests whose names extend one another with bytes that sort
// before '/' ("j", "j-i", "j#01"): the entries of a skipped test's descendants stay protected
// whatever else is in the skip list, and entries of the tests that ran are addressed; so Clean in
// clean mode leaves the file alone and lists nothing.
func H_C08_siblings() {
	vxrt.CI(false)
	vxrt.EnvFixed("UPDATE_SNAPS", "clean")
	vxrt.EnvFixed("NO_COLOR", "1")
	vxrt.Flag("test.count", "1")
	vxrt.Flag("test.run", "")
	dir := vxrt.Dir() + "/__snapshots__"
	path := dir + "/f_test.snap"
	tests := []string{"TestE/j", "TestE/j/n", "TestE/j/n/deep", "TestE/j-i", "TestE/j#01", "TestE/k"}
	content := ""
	for _, tn := range tests {
		content += vxFrame(tn+" - 1", "v-"+tn)
	}
	// a stale entry of a sibling sub-test that no longer exists: a skip of other sub-tests of
	// TestE does not protect it (TestE itself ran)
	stale := vxFrame("TestE/gone - 1", "stale")
	vxWriteFile(path, content+stale)
	vxrt.TestSources(vxrt.Dir()+"/f_test.go", "TestE")
	c := WithConfig(Dir(dir), Filename("f_test"), Update(false))
	skipJ := vxrt.Bool("skip-TestE/j")
	skipN := vxrt.Bool("skip-TestE/j/n")
	skip := map[string]bool{"TestE/j": skipJ, "TestE/j/n": skipN, "TestE/j-i": vxrt.Bool("skip-TestE/j-i"), "TestE/j#01": vxrt.Bool("skip-TestE/j#01")}
	reverse := vxrt.Bool("later-tests-first")
	for k := range tests {
		tn := tests[k]
		if reverse {
			tn = tests[len(tests)-1-k]
		}
		// descendants of a skipped test do not start
		if tn == "TestE/j/n" && skipJ || tn == "TestE/j/n/deep" && (skipJ || skipN) {
			continue
		}
		t := vxNewT(tn)
		if skip[tn] {
			SkipNow(t)
			continue
		}
		c.MatchSnapshot(t, "v-"+tn)
		t.end()
		vxrt.Assert(len(t.errors) == 0, "setup:passes")
	}
	Clean(nil)
	out := vxrt.Stdout()
	vxrt.Assert(vxReadFile(path) == content, "C08:entries-of-skipped-tests-and-their-descendants-kept")
	vxrt.Assert(strings.Count(out, vxBullet) == 1 && strings.Contains(out, vxBullet+"TestE/gone - 1\n"), "C08:only-the-stale-sibling-listed")
}
