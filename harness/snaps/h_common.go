//go:build verif || verif_replay

package snaps

import (
	"fmt"

	"github.com/gkampitakis/go-snaps/internal/vxrt"
)

// mockT records what go-snaps tells the test.
type mockT struct {
	name     string
	errors   []any
	logs     []any
	cleanups []func()
	skips    int
}

func (m *mockT) Helper()              {}
func (m *mockT) Skip(args ...any)     { m.skips++ }
func (m *mockT) Skipf(string, ...any) { m.skips++ }
func (m *mockT) SkipNow()             { m.skips++ }
func (m *mockT) Name() string         { return m.name }
func (m *mockT) Error(args ...any)    { m.errors = append(m.errors, first(args)) }
func (m *mockT) Log(args ...any)      { m.logs = append(m.logs, first(args)) }
func (m *mockT) Cleanup(f func())     { m.cleanups = append(m.cleanups, f) }

func first(args []any) any {
	if len(args) == 0 {
		return nil
	}
	return args[0]
}

// end runs the registered cleanups in LIFO order, as testing does when the
// test function returns.
func (m *mockT) end() {
	for i := len(m.cleanups) - 1; i >= 0; i-- {
		m.cleanups[i]()
	}
	m.cleanups = nil
}

func newT(name string) *mockT { return &mockT{name: name} }

var _ = fmt.Sprint
var _ = vxrt.Assert
