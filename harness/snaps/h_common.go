//go:build verif || verif_replay

package snaps

import (
	"fmt"
	"os"
	"path/filepath"
	"runtime"
	"strconv"
	"sync"

	"github.com/gkampitakis/go-snaps/internal/vxrt"
	"github.com/tidwall/gjson"
)

// mockT records what go-snaps tells the test.
type vxMockT struct {
	name     string
	errors   []any
	logs     []any
	cleanups []func()
	skips    int
	// exitOnSkip makes Skip/Skipf/SkipNow end the calling goroutine the way testing.T does
	// (runtime.Goexit); only for test bodies that run on a goroutine of their own (runTest)
	exitOnSkip bool
}

func (m *vxMockT) Helper() { vxrt.Jitter() }
func (m *vxMockT) skipped() {
	m.skips++
	if m.exitOnSkip {
		runtime.Goexit()
	}
}
func (m *vxMockT) Skip(args ...any)     { m.skipped() }
func (m *vxMockT) Skipf(string, ...any) { m.skipped() }
func (m *vxMockT) SkipNow()             { m.skipped() }
func (m *vxMockT) Name() string         { vxrt.Jitter(); return m.name }
func (m *vxMockT) Error(args ...any)    { m.errors = append(m.errors, vxFirst(args)) }
func (m *vxMockT) Log(args ...any)      { m.logs = append(m.logs, vxFirst(args)) }
func (m *vxMockT) Cleanup(f func())     { vxrt.Jitter(); m.cleanups = append(m.cleanups, f) }

func vxFirst(args []any) any {
	if len(args) == 0 {
		return nil
	}
	return args[0]
}

// end runs the registered cleanups in LIFO order, as testing does when the
// test function returns.
func (m *vxMockT) end() {
	for i := len(m.cleanups) - 1; i >= 0; i-- {
		m.cleanups[i]()
	}
	m.cleanups = nil
}

func vxNewT(name string) *vxMockT { return &vxMockT{name: name} }

// runTest runs a test body the way package testing does: on a goroutine of its own, so that a
// skip ends the body (deferred calls run), followed by the test's cleanups.
func vxRunTest(t *vxMockT, body func()) {
	t.exitOnSkip = true
	var wg sync.WaitGroup
	wg.Add(1)
	go func() {
		defer wg.Done()
		defer t.end()
		body()
	}()
	wg.Wait()
}

var _ = fmt.Sprint
var _ = vxrt.Assert

// noCRAtEOL: no line of s ends in a carriage return (README "Known
// limitations": the line reader strips it). Built without branching.
func vxNoCRAtEOL(s string) bool {
	ok := true
	for i := 0; i < len(s); i++ {
		last := i+1 == len(s)
		var nextNL bool
		if !last {
			nextNL = s[i+1] == '\n'
		}
		ok = vxrt.And(ok, vxrt.Not(vxrt.And(s[i] == '\r', vxrt.Or(last, nextNL))))
	}
	return ok
}

// plainText: s contains none of the bytes kr/pretty's tabwriter rewrites, so
// that the formatted text of the string value s is s itself.
func vxPlainText(s string) bool {
	ok := true
	for i := 0; i < len(s); i++ {
		c := s[i]
		ok = vxrt.And(ok, vxrt.Not(vxrt.Or(vxrt.Or(c == '\t', c == '\v'), vxrt.Or(c == '\f', c == 0xff))))
	}
	return ok
}

// dumpDir renders the whole directory (names and contents, one level of
// sub-directories) as one string, for byte-for-byte comparison.
func vxDumpDir(dir string) string {
	out := ""
	ents, err := os.ReadDir(dir)
	if err != nil {
		return "<no dir>"
	}
	for _, e := range ents {
		if e.IsDir() {
			out += "D:" + e.Name() + "{" + vxDumpDir(dir+"/"+e.Name()) + "}"
			continue
		}
		b, _ := os.ReadFile(dir + "/" + e.Name())
		out += "F:" + e.Name() + "=" + strconv.Itoa(len(b)) + ":" + string(b) + ";"
	}
	return out
}

// asciiOnly: every byte of s is below 0x80.
func vxAsciiOnly(s string) bool {
	ok := true
	for i := 0; i < len(s); i++ {
		ok = vxrt.And(ok, s[i] < 0x80)
	}
	return ok
}

// ---- shared scenario helpers

const (
	vxKindSnapshot = 0
	vxKindYAML     = 1
	vxKindJSON     = 2
)

// doCall issues one Match* call of the given kind through c.
func vxDoCall(c *Config, t *vxMockT, kind int, text string) {
	switch kind {
	case vxKindSnapshot:
		c.MatchSnapshot(t, text)
	case vxKindYAML:
		c.MatchYAML(t, text)
	default:
		c.MatchJSON(t, text)
	}
}

// frame renders one well-formed entry of a snapshot file.
func vxFrame(id, body string) string { return "\n[" + id + "]\n" + body + "\n---\n" }

// hasLine: text has a whole line equal to line (built without branching).
func vxHasLine(text, line string) bool {
	n, m := len(text), len(line)
	found := false
	for p := 0; p+m <= n; p++ {
		startOK := p == 0
		if p > 0 {
			startOK = text[p-1] == '\n'
		}
		endOK := p+m == n
		if p+m < n {
			endOK = text[p+m] == '\n'
		}
		found = vxrt.Or(found, vxrt.And(vxrt.And(startOK, endOK), vxrt.Eq(text[p:p+m], line)))
	}
	return found
}

// symText returns a symbolic text of length 0..n that is a legal formatted
// value for MatchSnapshot in the model (no CR at end of line, no tabwriter
// control bytes) and, if ascii, has only bytes below 0x80.
func vxSymText(label string, n int, ascii bool) string {
	s := vxrt.Text(label, vxrt.Len(label+"-len", 0, n))
	vxrt.Assume(vxNoCRAtEOL(s))
	vxrt.Assume(vxPlainText(s))
	if ascii {
		vxrt.Assume(vxAsciiOnly(s))
	}
	return s
}

// noTerminatorLine: body has no whole line "---" (a well-formed frame body is
// stored escaped, so it never has one).
func vxNoTerminatorLine(body string) bool { return vxrt.Not(vxHasLine(body, "---")) }

func vxOs_MkdirAll(dir string) { os.MkdirAll(dir, os.ModePerm) }

func vxWriteFile(path, content string) {
	os.MkdirAll(filepath.Dir(path), os.ModePerm)
	os.WriteFile(path, []byte(content), os.ModePerm)
}

func vxReadFile(path string) string {
	b, err := os.ReadFile(path)
	if err != nil {
		return "<missing>"
	}
	return string(b)
}

func vxOsReadDirNames(dir string) ([]string, error) {
	ents, err := os.ReadDir(dir)
	if err != nil {
		return nil, err
	}
	var out []string
	for _, e := range ents {
		out = append(out, e.Name())
	}
	return out, nil
}

func vxValidJSONString(s string) bool { return gjson.Valid(s) }

func vxRemoveFile(p string) { os.Remove(p) }

// structText builds a text of 1..k lines, each line one of eight shapes around
// the storage format's special tokens, with symbolic filler bytes:
//
//	""  c  ---  /-/-/-/  c---  ---c  c---c  c/-/-/-/c        (c = one symbolic byte)
//
// This reaches the line-structured corner cases (adjacent terminators,
// padded terminators, tokens embedded in longer lines) that fully symbolic
// texts only reach at lengths of 7..11 bytes.
func vxStructText(label string, k int) string {
	nl := vxrt.Len(label+"-lines", 1, k)
	out := ""
	sym := func() string {
		c := vxrt.Text(label+"-c", 1)
		// filler: not a newline, not CR, not a tabwriter control byte, ASCII
		vxrt.Assume(vxrt.And(vxrt.And(c[0] != '\n', c[0] != '\r'), vxrt.And(vxPlainText(c), c[0] < 0x80)))
		return c
	}
	for i := 0; i < nl; i++ {
		if i > 0 {
			out += "\n"
		}
		switch vxrt.Choice(label+"-shape", 8) {
		case 0:
		case 1:
			out += sym()
		case 2:
			out += "---"
		case 3:
			out += "/-/-/-/"
		case 4:
			out += sym() + "---"
		case 5:
			out += "---" + sym()
		case 6:
			out += sym() + "---" + sym()
		default:
			out += sym() + "/-/-/-/" + sym()
		}
	}
	return out
}

func vxItoa(n int) string {
	if n == 0 {
		return "0"
	}
	s := ""
	for n > 0 {
		s = string(rune('0'+n%10)) + s
		n /= 10
	}
	return s
}

// differs: a != b as one term (lengths are concrete).
func vxDiffers(a, b string) bool { return vxrt.Not(vxrt.Eq(a, b)) }

// escapeRef is the harness's own statement of the terminator escaping: whole
// lines equal to --- become /-/-/-/.
func vxEscapeRef(s string) string {
	out := ""
	line := ""
	for i := 0; i <= len(s); i++ {
		if i == len(s) || s[i] == '\n' {
			if line == "---" {
				line = "/-/-/-/"
			}
			out += line
			if i < len(s) {
				out += "\n"
			}
			line = ""
			continue
		}
		line += s[i : i+1]
	}
	return out
}

// compactRef strips insignificant white space (outside strings): the harness's
// own reference for "parses to the same JSON value" on the template documents.
func vxCompactRef(s string) string {
	out := ""
	inStr := false
	esc := false
	for i := 0; i < len(s); i++ {
		c := s[i]
		if inStr {
			out += s[i : i+1]
			if esc {
				esc = false
			} else if c == '\\' {
				esc = true
			} else if c == '"' {
				inStr = false
			}
			continue
		}
		if c == ' ' || c == '\t' || c == '\n' || c == '\r' {
			continue
		}
		if c == '"' {
			inStr = true
		}
		out += s[i : i+1]
	}
	return out
}

// jsonTemplate builds a small JSON document with symbolic leaves:
// 0: {"k":"<s>"}   1: ["<s>",<digit>]   2: {"b":<digit>,"a":"<s>"}
func vxJsonTemplate(label string, n int) string {
	s := vxrt.Text(label, vxrt.Len(label+"-len", 0, n))
	// string content: printable ASCII without quote and backslash
	for i := 0; i < len(s); i++ {
		vxrt.Assume(vxrt.And(vxrt.And(s[i] >= 0x20, s[i] < 0x7f), vxrt.And(s[i] != '"', s[i] != '\\')))
	}
	switch vxrt.Choice(label+"-shape", 3) {
	case 0:
		return `{"k":"` + s + `"}`
	case 1:
		d := vxrt.Text(label+"-digit", 1)
		vxrt.Assume(vxrt.And(d[0] >= '0', d[0] <= '9'))
		return `["` + s + `",` + d + `]`
	default:
		d := vxrt.Text(label+"-digit", 1)
		vxrt.Assume(vxrt.And(d[0] >= '0', d[0] <= '9'))
		return `{"b":` + d + `,"a":"` + s + `"}`
	}
}

func vxCfgWithOpt(dir string, opt int) *Config { return vxCfgWithOptName(dir, opt, "f") }

func vxCfgWithOptName(dir string, opt int, filename string) *Config {
	switch opt {
	case 1:
		return WithConfig(Dir(dir), Filename(filename), Update(true))
	case 2:
		return WithConfig(Dir(dir), Filename(filename), Update(false))
	}
	return WithConfig(Dir(dir), Filename(filename))
}

// k1EscapeAlias is the class of known finding K1: the two texts become equal
// when every whole line "/-/-/-/" is read as "---" (the escape token is itself
// a legal line, and comparison happens after unescaping both sides).
func vxK1EscapeAlias(a, b string) bool {
	return vxrt.Eq(vxUnescapeRef(a), vxUnescapeRef(b))
}

// unescapeRef is the harness's own statement of "map whole lines /-/-/-/ to ---".
func vxUnescapeRef(s string) string {
	out := ""
	line := ""
	for i := 0; i <= len(s); i++ {
		if i == len(s) || s[i] == '\n' {
			if line == "/-/-/-/" {
				line = "---"
			}
			out += line
			if i < len(s) {
				out += "\n"
			}
			line = ""
			continue
		}
		line += s[i : i+1]
	}
	return out
}

// ---- the harness's own reader of the .snap format (so that what a file holds is judged by the
// documented format, not by the implementation's reader): lines are separated by "\n" (a "\r"
// before it is dropped, the documented limitation), an entry is a line equal to its id followed
// by the body lines up to a line equal to "---"; the first such entry counts.

var vxErrRefNotFound = fmt.Errorf("reference reader: entry not found")

func vxScanLines(content string) []string {
	var lines []string
	start := 0
	for i := 0; i < len(content); i++ {
		if content[i] == '\n' {
			end := i
			if end > start && content[end-1] == '\r' {
				end--
			}
			lines = append(lines, content[start:end])
			start = i + 1
		}
	}
	if start < len(content) {
		end := len(content)
		if content[end-1] == '\r' {
			end--
		}
		lines = append(lines, content[start:end])
	}
	return lines
}

// refPrev returns the body of entry id in the file at path and the line number of its header.
func vxRefPrev(id, path string) (string, int, error) {
	b, err := os.ReadFile(path)
	if err != nil {
		return "", -1, vxErrRefNotFound
	}
	lines := vxScanLines(string(b))
	for i := 0; i < len(lines); i++ {
		if lines[i] != id {
			continue
		}
		body := ""
		for j := i + 1; j < len(lines); j++ {
			if lines[j] == "---" {
				if len(body) > 0 {
					body = body[:len(body)-1]
				}
				return body, i + 1, nil
			}
			body += lines[j] + "\n"
		}
		return "", -1, vxErrRefNotFound
	}
	return "", -1, vxErrRefNotFound
}

// ---- user-visible marks of the printed output (written out here: the harnesses judge what is
// printed, not which identifiers the implementation builds it from)
const (
	vxBullet   = "• "
	vxArrow    = "› "
	vxSkipMark = "⟳ "
	vxErrMark  = "✕ "
)

// isLog: a value handed to t.Log is the given message (colour codes around it allowed).
func vxIsLog(v any, msg string) bool {
	s, ok := v.(string)
	if !ok {
		return false
	}
	for i := 0; i+len(msg) <= len(s); i++ {
		if s[i:i+len(msg)] == msg {
			return true
		}
	}
	return false
}

// forceInit makes the package's start-up (reading the environment, the CI flag, the defaults)
// happen now, e.g. before goroutines start.
func vxForceInit() { _ = WithConfig() }
