//go:build verif || verif_replay

package snaps

import (
	"sync"

	"github.com/gkampitakis/go-snaps/internal/vxrt"
)

func vxCfgEqual(a, b Config) bool {
	if a.filename != b.filename || a.snapsDir != b.snapsDir || a.extension != b.extension {
		return false
	}
	if (a.update == nil) != (b.update == nil) || (a.update != nil && *a.update != *b.update) {
		return false
	}
	if (a.json == nil) != (b.json == nil) || (a.json != nil && *a.json != *b.json) {
		return false
	}
	return true
}

// cfgSnap is a deep copy of a Config (the update flag and the JSON options are held by pointer).
func vxCfgSnap(c *Config) Config {
	out := *c
	if c.update != nil {
		u := *c.update
		out.update = &u
	}
	if c.json != nil {
		j := *c.json
		out.json = &j
	}
	return out
}

// freezeCfg arms the write monitor on a Config and on what it points to.
func vxFreezeCfg(c *Config, what string) {
	vxrt.Freeze(c, what)
	if c.json != nil {
		vxrt.Freeze(c.json, what+" (JSON options)")
	}
	if c.update != nil {
		vxrt.Freeze(c.update, what+" (update flag)")
	}
}

func vxCallAPI(c *Config, api int, t *vxMockT, v string) {
	switch api {
	case 0:
		c.MatchSnapshot(t, v)
	case 1:
		c.MatchJSON(t, v)
	case 2:
		c.MatchYAML(t, v)
	case 3:
		c.MatchStandaloneSnapshot(t, v)
	default:
		c.MatchStandaloneJSON(t, v)
	}
}

// H_C12_immutable: using a Config never changes it, nor another Config, nor
// the package defaults; where call B stores its snapshot does not depend on
// an earlier call A through the same Config.
func H_C12_immutable() {
	vxrt.CI(false)
	vxrt.YAMLAssume(true)
	dir := vxrt.Dir()
	// option set: each option present or not
	var opts []func(*Config)
	opts = append(opts, Dir(dir))
	if vxrt.Bool("with-filename") {
		opts = append(opts, Filename("fn"))
	}
	if vxrt.Bool("with-ext") {
		opts = append(opts, Ext(".txt"))
	}
	if vxrt.Bool("with-update") {
		opts = append(opts, Update(true))
	}
	switch vxrt.Choice("with-json", 3) {
	case 1:
		opts = append(opts, JSON(JSONConfig{Indent: "  "}))
	case 2:
		opts = append(opts, JSON(JSONConfig{SortKeys: true}))
	}
	c1 := WithConfig(opts...)
	c2 := WithConfig(Dir(dir), Filename("other"))
	snap1, snap2, snapDef := vxCfgSnap(c1), vxCfgSnap(c2), vxCfgSnap(&defaultConfig)
	var json1 JSONConfig
	if c1.json != nil {
		json1 = *c1.json
	}
	// a third Config built from the same option values plus further options: building it
	// must not reach into c1
	c3 := WithConfig(append(append([]func(*Config){}, opts...), JSON(JSONConfig{Indent: "\t", Width: 7}), Ext(".x"), Filename("third"), Update(false))...)
	_ = c3
	vxrt.Assert(vxCfgEqual(*c1, snap1) && (c1.json == nil || *c1.json == json1), "C12:configs-built-from-shared-options-are-independent")
	vxFreezeCfg(c1, "shared Config c1")

	seq := vxrt.Len("calls", 1, vxrt.Param("calls", 2))
	apis := make([]int, seq)
	for k := 0; k < seq; k++ {
		apis[k] = vxrt.Choice("api", 5)
	}
	// where does the last call store when issued alone through an identical fresh Config?
	fresh := WithConfig(opts...)
	tl := vxNewT("TestL")
	before := vxDirNames(dir)
	vxCallAPI(fresh, apis[seq-1], tl, `"v"`)
	tl.end()
	alone := vxNewNames(before, vxDirNames(dir))
	// reset the directory and the registries' view by using a different test name below
	for _, nme := range vxDirNames(dir) {
		vxRemoveFile(dir + "/" + nme)
	}

	for k := 0; k < seq; k++ {
		t := vxNewT("TestL")
		if k < seq-1 {
			t = vxNewT("TestK")
		}
		vxCallAPI(c1, apis[k], t, `"v"`)
		t.end()
		vxrt.Assert(vxCfgEqual(*c1, snap1), "C12:config-unchanged-by-call")
		vxrt.Assert(vxCfgEqual(*c2, snap2), "C12:other-config-unchanged")
		vxrt.Assert(vxCfgEqual(defaultConfig, snapDef), "C12:defaults-unchanged")
		if k == seq-1 {
			// every file the lone call created exists after the sequence as well
			after := vxDirNames(dir)
			same := true
			for _, a := range alone {
				found := false
				for _, b := range after {
					found = found || a == b
				}
				same = same && found
			}
			vxrt.Assert(same && len(alone) == 1, "C12:location-independent-of-earlier-calls")
		}
	}
}

func vxDirNames(dir string) []string {
	n, _ := vxOsReadDirNames(dir)
	return n
}

func vxNewNames(before, after []string) []string {
	var out []string
	for _, a := range after {
		found := false
		for _, b := range before {
			if a == b {
				found = true
			}
		}
		if !found {
			out = append(out, a)
		}
	}
	return out
}

// H_C12_concurrent: two goroutines issue entry points through one shared
// Config at the same time; the Config is never written (write monitor) and each
// call stores where it would store alone.
func H_C12_concurrent() {
	vxrt.CI(false)
	vxrt.YAMLAssume(true)
	dir := vxrt.Dir()
	var opts []func(*Config)
	opts = append(opts, Dir(dir))
	if vxrt.Bool("with-filename") {
		opts = append(opts, Filename("fn"))
	}
	if vxrt.Bool("with-ext") {
		opts = append(opts, Ext(".txt"))
	}
	if vxrt.Bool("with-json") {
		opts = append(opts, JSON(JSONConfig{SortKeys: true}))
	}
	c1 := WithConfig(opts...)
	snap1 := vxCfgSnap(c1)
	vxForceInit()
	vxFreezeCfg(c1, "shared Config c1")
	apis := [2]int{vxrt.Choice("api-A", 5), vxrt.Choice("api-B", 5)}
	// where each call stores when issued alone through an identical Config
	var alone [2][]string
	for g := 0; g < 2; g++ {
		fresh := WithConfig(opts...)
		t := vxNewT([]string{"TestA", "TestB"}[g])
		before := vxDirNames(dir)
		// in a goroutine of its own, as in the concurrent run below (a goroutine's call
		// stack does not end in the test runner, which matters for the default file name)
		var w1 sync.WaitGroup
		w1.Add(1)
		go func() {
			defer w1.Done()
			vxCallAPI(fresh, apis[g], t, `"v"`)
		}()
		w1.Wait()
		t.end()
		alone[g] = vxNewNames(before, vxDirNames(dir))
		for _, nme := range vxDirNames(dir) {
			vxRemoveFile(dir + "/" + nme)
		}
	}
	ts := [2]*vxMockT{vxNewT("TestA"), vxNewT("TestB")}
	var wg sync.WaitGroup
	wg.Add(2)
	for g := 0; g < 2; g++ {
		g := g
		go func() {
			defer wg.Done()
			vxCallAPI(c1, apis[g], ts[g], `"v"`)
		}()
	}
	wg.Wait()
	ts[0].end()
	ts[1].end()
	vxrt.Assert(vxCfgEqual(*c1, snap1), "C12:config-unchanged-by-concurrent-calls")
	vxrt.Assert(len(ts[0].errors)+len(ts[1].errors) == 0, "C12:concurrent-calls-succeed")
	after := vxDirNames(dir)
	for g := 0; g < 2; g++ {
		for _, a := range alone[g] {
			found := false
			for _, b := range after {
				found = found || a == b
			}
			vxrt.Assert(found, "C12:location-independent-of-concurrent-calls")
		}
	}
}

// H_C12_independent: two Configs that differ in their JSON formatting options are used
// at the same time from two goroutines; each call must store exactly what it stores when
// issued alone (Configs are independent of each other, also under concurrency). Stores to
// package-level variables of the library are scheduling points (vxrt.SharedGlobals), so a
// package-level scratch value shared between calls shows up as an interleaving.
func H_C12_independent() {
	vxrt.CI(false)
	dir := vxrt.Dir()
	vxrt.SharedGlobals("github.com/gkampitakis/go-snaps")
	indents := [2]string{"  ", "\t"}
	widths := [2]int{80, 4}
	sort := [2]bool{false, true}
	var cfg [2]*Config
	for g := 0; g < 2; g++ {
		cfg[g] = WithConfig(Dir(dir), Filename([]string{"fa", "fb"}[g]), JSON(JSONConfig{Indent: indents[g], Width: widths[g], SortKeys: sort[g]}))
	}
	const doc = `{"b":[1,2],"a":"x"}`
	api := vxrt.Choice("api", 2)
	call := func(g int, t *vxMockT) {
		if api == 0 {
			cfg[g].MatchJSON(t, doc)
		} else {
			cfg[g].MatchStandaloneJSON(t, doc)
		}
	}
	// what each call stores alone
	var alone [2]string
	for g := 0; g < 2; g++ {
		t := vxNewT([]string{"TestA", "TestB"}[g])
		call(g, t)
		t.end()
		alone[g] = vxDumpDir(dir)
		for _, nme := range vxDirNames(dir) {
			vxRemoveFile(dir + "/" + nme)
		}
	}
	vxrt.Assert(alone[0] != alone[1], "C12:harness-configs-format-differently")
	ts := [2]*vxMockT{vxNewT("TestA"), vxNewT("TestB")}
	var wg sync.WaitGroup
	wg.Add(2)
	for g := 0; g < 2; g++ {
		g := g
		go func() {
			defer wg.Done()
			call(g, ts[g])
		}()
	}
	wg.Wait()
	ts[0].end()
	ts[1].end()
	vxrt.Assert(len(ts[0].errors)+len(ts[1].errors) == 0, "C12:concurrent-calls-succeed")
	// the directory now holds exactly the two lone results
	both := vxDumpDir(dir)
	for _, nme := range vxDirNames(dir) {
		if len(nme) >= 2 && nme[:2] == "fb" {
			vxRemoveFile(dir + "/" + nme)
		}
	}
	onlyA := vxDumpDir(dir)
	vxrt.Assert(onlyA == alone[0], "C12:config-A-result-independent-of-concurrent-config-B")
	vxrt.Assert(len(both) == len(alone[0])+len(alone[1]), "C12:config-B-result-independent-of-concurrent-config-A")
}

// H_C12_mismatch: a call through a shared Config that fails (its stored value differs) or passes
// leaves the Config as it was, and the next call through it - any entry point, for a slot
// recorded earlier through an identical Config - still finds its snapshot where it was recorded
// and passes silently. File names with a directory part included.
func H_C12_mismatch() {
	vxrt.CI(false)
	vxrt.YAMLAssume(true)
	vxrt.EnvFixed("NO_COLOR", "1")
	dir := vxrt.Dir()
	opts := []func(*Config){Dir(dir)}
	switch vxrt.Choice("filename", 3) {
	case 1:
		opts = append(opts, Filename("fn"))
	case 2:
		opts = append(opts, Filename("a/b"))
	}
	c1 := WithConfig(opts...)
	snap := vxCfgSnap(c1)
	apiA, apiB := vxrt.Choice("api-A", 5), vxrt.Choice("api-B", 5)
	firstMismatches := vxrt.Bool("first-call-mismatches")
	// (with a Filename, standalone files are numbered per file name, not per test: two tests using
	// the same standalone entry point would share the numbering - not what is examined here)
	vxrt.Assume(!(len(opts) > 1 && apiA >= 3 && apiA == apiB))
	// both slots are recorded through an identical Config first
	fresh := WithConfig(opts...)
	t0a, t0b := vxNewT("TestA"), vxNewT("TestB")
	if firstMismatches {
		vxCallAPI(fresh, apiA, t0a, `"w"`)
	} else {
		vxCallAPI(fresh, apiA, t0a, `"v"`)
	}
	vxCallAPI(fresh, apiB, t0b, `"v"`)
	t0a.end()
	t0b.end()
	vxrt.Assert(len(t0a.errors)+len(t0b.errors) == 0, "setup:recorded")
	before := vxDumpDir(dir)
	vxFreezeCfg(c1, "shared Config c1")
	tA := vxNewT("TestA")
	vxCallAPI(c1, apiA, tA, `"v"`)
	tA.end()
	if firstMismatches {
		vxrt.Assert(len(tA.errors) == 1 && len(tA.logs) == 0, "C12:first-call-behaves-as-through-a-fresh-config")
	} else {
		vxrt.Assert(len(tA.errors) == 0 && len(tA.logs) == 0, "C12:first-call-behaves-as-through-a-fresh-config")
	}
	vxrt.Assert(vxCfgEqual(*c1, snap), "C12:config-unchanged-by-call")
	tB := vxNewT("TestB")
	vxCallAPI(c1, apiB, tB, `"v"`)
	tB.end()
	vxrt.Assert(len(tB.errors) == 0 && len(tB.logs) == 0, "C12:later-call-independent-of-earlier-calls")
	vxrt.Assert(vxDumpDir(dir) == before, "C12:nothing-written-by-replays")
	vxrt.Assert(vxCfgEqual(*c1, snap), "C12:config-unchanged-by-call")
}

// H_C12_symlink: one Config whose directory lies behind a symbolic link and does not exist before
// the first call: the calls made through it keep going to one file (the second call of the test
// is slot 2 of the file the first call created), also for the standalone entry point.
func H_C12_symlink() {
	vxrt.CI(false)
	vxrt.EnvFixed("NO_COLOR", "1")
	vxrt.EnvFixed("UPDATE_SNAPS", "")
	base := vxrt.Dir()
	realDir, link := base+"/real", base+"/link"
	vxOs_MkdirAll(realDir)
	vxrt.Symlink(realDir, link)
	dir := link + "/new/__snapshots__"
	t := vxNewT("TestT")
	if vxrt.Bool("standalone") {
		c := WithConfig(Dir(dir))
		c.MatchStandaloneSnapshot(t, "one")
		c.MatchStandaloneSnapshot(t, "two")
		t.end()
		vxrt.Assert(len(t.errors) == 0 && len(t.logs) == 2, "C12:behaviour-depends-only-on-options")
		vxrt.Assert(vxReadFile(realDir+"/new/__snapshots__/TestT_1.snap") == "one" && vxReadFile(realDir+"/new/__snapshots__/TestT_2.snap") == "two", "C12:location-depends-only-on-options")
		return
	}
	c := WithConfig(Dir(dir), Filename("f"))
	c.MatchSnapshot(t, "one")
	c.MatchSnapshot(t, "two")
	t.end()
	vxrt.Assert(len(t.errors) == 0 && len(t.logs) == 2, "C12:behaviour-depends-only-on-options")
	vxrt.Assert(vxReadFile(realDir+"/new/__snapshots__/f.snap") == vxFrame("TestT - 1", "one")+vxFrame("TestT - 2", "two"), "C12:location-depends-only-on-options")
}

// H_C12_twins: Configs built from option lists that differ only in the JSON option (none, i.e.
// the defaults, against an explicit zero JSONConfig: no sorting, no indent) are independent
// objects: each formats with its own options, whichever was built first and whatever else was
// built before with the same directory.
func H_C12_twins() {
	vxrt.CI(false)
	vxrt.EnvFixed("NO_COLOR", "1")
	base := vxrt.Dir()
	d1, d2 := base+"/one", base+"/two"
	var a, b, refA, refB *Config
	if vxrt.Bool("defaults-built-first") {
		a = WithConfig(Dir(d1))
		b = WithConfig(Dir(d1), JSON(JSONConfig{}))
		refB = WithConfig(Dir(d2), JSON(JSONConfig{}))
		refA = WithConfig(Dir(d2))
	} else {
		b = WithConfig(Dir(d1), JSON(JSONConfig{}))
		a = WithConfig(Dir(d1))
		refA = WithConfig(Dir(d2))
		refB = WithConfig(Dir(d2), JSON(JSONConfig{}))
	}
	vxrt.Assert(a != b && refA != refB, "C12:configs-are-independent-objects")
	doc := `{"b":1,"a":{"d":2,"c":3}}`
	for _, c := range []*Config{a, refA} {
		t := vxNewT("TestA")
		c.MatchStandaloneJSON(t, doc)
		t.end()
	}
	for _, c := range []*Config{b, refB} {
		t := vxNewT("TestB")
		c.MatchStandaloneJSON(t, doc)
		t.end()
	}
	sorted := "{\n \"a\": {\n  \"c\": 3,\n  \"d\": 2\n },\n \"b\": 1\n}"
	vxrt.Assert(vxReadFile(d1+"/TestA_1.snap.json") == sorted && vxReadFile(d2+"/TestA_1.snap.json") == sorted, "C12:behaviour-depends-only-on-options")
	vxrt.Assert(vxReadFile(d1+"/TestB_1.snap.json") == vxReadFile(d2+"/TestB_1.snap.json") && vxReadFile(d1+"/TestB_1.snap.json") != sorted, "C12:behaviour-depends-only-on-options")
}
