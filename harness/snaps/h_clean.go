//go:build verif || verif_replay

package snaps

import (
	"os"
	"strings"

	"github.com/gkampitakis/ciinfo"
	"github.com/gkampitakis/go-snaps/internal/vxrt"
)

// H_clean: a test program (TestA: two MatchSnapshot calls, TestB: one call,
// TestS: one standalone call) runs -count times against a directory that also
// holds stale entries, a stale standalone file, a stale multi-entry file, a
// file without .snap in its name and a sub-directory; then Clean runs in an
// arbitrary mode. Param prop selects the property whose assertions are active:
// 7 = C07, 9 = C09, 5 = C05 (mode table for Clean).
func H_clean() {
	prop := vxrt.Param("prop", 7)
	vxrt.CISymbolic()
	vxrt.EnvSymbolic("UPDATE_SNAPS", vxrt.Param("envlen", 5))
	vxrt.EnvFixed("NO_COLOR", "1")
	dir := vxrt.Dir()
	path := dir + "/f.snap"
	count := vxrt.Len("count", 1, vxrt.Param("count", 2))
	vxrt.Flag("test.count", vxItoa(count))
	vxrt.Flag("test.run", "")
	sortOpt := vxrt.Bool("sort")
	// optional features of the directory: every subset of them (param allsubsets=1), or at most
	// one per path (the quick tier); the core - sort x stale entries x layout - is always a full product
	allSubsets := vxrt.Param("allsubsets", 0) == 1
	extra := 0
	if !allSubsets {
		extra = vxrt.Choice("extra-feature", 7)
	}
	feature := func(label string, idx int) bool {
		if allSubsets {
			return vxrt.Bool(label)
		}
		return extra == idx
	}
	n := vxrt.Param("n", 1)

	// bodies of the live entries
	n0 := vxrt.Param("n0", 0)
	bA1 := vxSymText("bodyA1", n0, true)
	bA2 := vxSymText("bodyA2", n, true)
	bB1 := vxSymText("bodyB1", n0, true)
	stale1 := vxSymText("stale1", n0, true)
	for _, b := range []string{bA1, bA2, bB1, stale1} {
		vxrt.Assume(vxrt.Not(vxHasLine(b, "---")))
	}
	// the second test: a Test, or (when -count is 1) a benchmark or fuzz target:
	// *testing.B and *testing.F satisfy the interface the Match* functions take
	nameB := "TestB"
	if count == 1 && prop == 7 {
		nameB = []string{"TestB", "BenchmarkB", "FuzzB"}[vxrt.Choice("second-test-kind", 3)]
	}
	frames := []string{
		vxFrame("TestA - 1", bA1),
		vxFrame("TestA - 2", bA2),
		vxFrame(nameB+" - 1", bB1),
	}
	staleFrames := []string{}
	if vxrt.Bool("stale-ordinal") {
		staleFrames = append(staleFrames, vxFrame("TestA - 3", stale1))
	}
	if vxrt.Bool("stale-test") {
		// its body has a line shaped like the header of some unrelated entry
		staleFrames = append(staleFrames, vxFrame("TestOld - 1", "q\n[TestQ - 7]\nr"))
	}
	// where the stale frames sit and whether the live ones are in sorted order
	content := ""
	switch vxrt.Choice("layout", 3) {
	case 0:
		content = strings.Join(frames, "") + strings.Join(staleFrames, "")
	case 1:
		content = strings.Join(staleFrames, "") + strings.Join(frames, "")
	default:
		content = frames[2] + strings.Join(staleFrames, "") + frames[1] + frames[0]
	}
	vxWriteFile(path, content)
	// a second addressed multi-entry file: TestA makes one call there; it may hold an
	// entry with an id that is live in f.snap but stale here
	gpath := dir + "/g.snap"
	gStale := feature("second-file-stale-entry", 1)
	gcontent := vxFrame("TestA - 1", "g1")
	if gStale {
		gcontent += vxFrame("TestA - 2", "gstale")
	}
	vxWriteFile(gpath, gcontent)
	// an addressed file that sorts before f.snap and whose last (stale) entry lost its terminator
	epath := dir + "/e.snap"
	malformed := feature("earlier-file-with-unterminated-entry", 2)
	econtent := vxFrame("TestA - 1", "e1")
	if malformed {
		econtent += "\n[TestGone - 1]\nhalf written entry"
	}
	vxWriteFile(epath, econtent)
	// a stale standalone snapshot with a custom extension
	hasStaleExt := feature("stale-standalone-with-ext", 3)
	if hasStaleExt {
		vxWriteFile(dir+"/TestOld_1.snap.json", "{}")
	}
	hasStaleStandalone := feature("stale-standalone", 4)
	if hasStaleStandalone {
		vxWriteFile(dir+"/TestS_2.snap", "old")
	}
	hasStaleFile := feature("stale-file", 5)
	if hasStaleFile {
		vxWriteFile(dir+"/old.snap", vxFrame("TestGone - 1", "x"))
	}
	// the standalone test: a plain name, or a sub-test whose name contains '%'
	nameS, fileS := "TestS", "TestS_1.snap"
	if feature("standalone-name-with-percent", 6) {
		nameS, fileS = "TestS/50%", "TestS_50%_1.snap"
	}
	vxWriteFile(dir+"/"+fileS, "sv")
	vxWriteFile(dir+"/notes.txt", "keep")
	vxWriteFile(dir+"/sub.snaps/inner.snap", "keep-inner")
	vxWriteFile(vxrt.Dir()+"2/other.snap", "keep-other")

	c := WithConfig(Dir(dir), Filename("f"), Update(false))
	cs := WithConfig(Dir(dir), Update(false))
	cg := WithConfig(Dir(dir), Filename("g"), Update(false))
	ce := WithConfig(Dir(dir), Filename("e"), Update(false))
	for r := 0; r < count; r++ {
		ta, tb, ts := vxNewT("TestA"), vxNewT(nameB), vxNewT(nameS)
		c.MatchSnapshot(ta, bA1)
		c.MatchSnapshot(ta, bA2)
		c.MatchSnapshot(tb, bB1)
		cg.MatchSnapshot(ta, "g1")
		ce.MatchSnapshot(ta, "e1")
		cs.MatchStandaloneSnapshot(ts, "sv")
		ta.end()
		tb.end()
		ts.end()
		vxrt.Assert(len(ta.errors)+len(tb.errors)+len(ts.errors) == 0, "setup:program-passes")
	}
	ci, env := ciinfo.IsCI, os.Getenv("UPDATE_SNAPS")
	cleanMode := !ci && (env == "true" || env == "clean")
	sorting := sortOpt && !ci
	stamp := vxrt.FSStamp()
	before := vxReadFile(path)

	Clean(nil, CleanOpts{Sort: sortOpt})

	out := vxrt.Stdout()
	after := vxReadFile(path)
	nStaleEntries := len(staleFrames)

	switch prop {
	case 7: // C07: nothing addressed in this run is lost, altered or listed
		for _, e := range []struct{ id, body string }{{"[TestA - 1]", bA1}, {"[TestA - 2]", bA2}, {"[" + nameB + " - 1]", bB1}} {
			got, _, err := vxRefPrev(e.id, path)
			vxrt.Assert(err == nil, "C07:addressed-entry-still-present")
			vxrt.Assert(vxrt.Eq(got, e.body), "C07:addressed-entry-value-unchanged")
		}
		vxrt.Assert(vxReadFile(dir+"/"+fileS) == "sv", "C07:addressed-standalone-untouched")
		gg, _, gerr := vxRefPrev("[TestA - 1]", gpath)
		vxrt.Assert(gerr == nil && gg == "g1", "C07:addressed-entry-in-second-file-unchanged")
		ee, _, eerr := vxRefPrev("[TestA - 1]", epath)
		vxrt.Assert(eerr == nil && ee == "e1", "C07:addressed-entry-in-earlier-file-unchanged")
		for _, id := range []string{"TestA - 1", "TestA - 2", nameB + " - 1"} {
			if id == "TestA - 2" && gStale {
				// the same id is stale in g.snap and is rightly listed for that file
				// (the summary does not name the file of an entry)
				continue
			}
			vxrt.Assert(!strings.Contains(out, vxBullet+id+"\n"), "C07:addressed-entry-not-listed")
		}
		for _, f := range []string{"/" + fileS + "\n", "/f.snap\n", "/g.snap\n", "/e.snap\n"} {
			vxrt.Assert(!strings.Contains(out, dir+f), "C07:addressed-file-not-listed")
		}
	case 9: // C09: every stale item reported; removed only in clean mode; nothing else touched
		if nStaleEntries > 0 {
			vxrt.Reach("stale-entries")
		}
		for _, f := range staleFrames {
			id := f[2:strings.Index(f, "]")]
			vxrt.Assert(strings.Contains(out, vxBullet+id+"\n"), "C09:stale-entry-reported")
			_, _, err := vxRefPrev("["+id+"]", path)
			if cleanMode {
				vxrt.Assert(err != nil, "C09:stale-entry-removed-in-clean-mode")
			} else {
				vxrt.Assert(err == nil, "C09:stale-entry-kept-outside-clean-mode")
			}
		}
		if gStale {
			vxrt.Reach("second-file-stale")
			_, _, gerr := vxRefPrev("[TestA - 2]", gpath)
			vxrt.Assert((gerr != nil) == cleanMode, "C09:stale-entry-of-second-file-removed-iff-clean-mode")
			f2, _, ferr := vxRefPrev("[TestA - 2]", path)
			vxrt.Assert(ferr == nil && vxrt.Eq(f2, bA2), "C09:live-entry-with-the-same-id-in-other-file-kept")
		}
		if hasStaleExt {
			vxrt.Assert(strings.Contains(out, vxBullet+dir+"/TestOld_1.snap.json\n"), "C09:stale-file-with-custom-extension-reported")
			vxrt.Assert((vxReadFile(dir+"/TestOld_1.snap.json") == "<missing>") == cleanMode, "C09:stale-file-with-custom-extension-removed-iff-clean-mode")
		}
		if hasStaleStandalone {
			vxrt.Assert(strings.Contains(out, vxBullet+dir+"/TestS_2.snap\n"), "C09:stale-standalone-reported")
			vxrt.Assert((vxReadFile(dir+"/TestS_2.snap") == "<missing>") == cleanMode, "C09:stale-standalone-removed-iff-clean-mode")
		}
		if hasStaleFile {
			vxrt.Assert(strings.Contains(out, vxBullet+dir+"/old.snap\n"), "C09:stale-file-reported")
			vxrt.Assert((vxReadFile(dir+"/old.snap") == "<missing>") == cleanMode, "C09:stale-file-removed-iff-clean-mode")
		}
		if !cleanMode && !sorting {
			vxrt.Assert(vxrt.FSStamp() == stamp, "C09:report-mode-writes-nothing")
		}
		if !cleanMode {
			// sorting may only reorder: every frame still there
			for _, f := range append(append([]string{}, frames...), staleFrames...) {
				id := f[2:strings.Index(f, "]")]
				_, _, err := vxRefPrev("["+id+"]", path)
				vxrt.Assert(err == nil, "C09:no-entry-removed-outside-clean-mode")
			}
			vxrt.Assert(len(after) == len(before), "C09:file-size-unchanged-outside-clean-mode")
		}
		// nothing else is listed: one bullet line per stale item
		wantListed := nStaleEntries
		for _, b := range []bool{gStale, hasStaleExt, hasStaleStandalone, hasStaleFile, malformed} {
			if b {
				wantListed++
			}
		}
		vxrt.Assert(strings.Count(out, vxBullet) == wantListed, "C09:exactly-the-stale-items-are-listed")
		vxrt.Assert(vxReadFile(dir+"/notes.txt") == "keep", "C09:non-snap-file-untouched")
		vxrt.Assert(vxReadFile(dir+"/sub.snaps/inner.snap") == "keep-inner", "C09:sub-directory-untouched")
		vxrt.Assert(vxReadFile(vxrt.Dir()+"2/other.snap") == "keep-other", "C09:unvisited-directory-untouched")
		vxrt.Assert(!strings.Contains(out, "notes.txt") && !strings.Contains(out, "sub.snaps") && !strings.Contains(out, "other.snap"), "C09:untouched-items-not-listed")
	case 5: // C05: Clean deletes only off CI with UPDATE_SNAPS true|clean, sorts only when asked
		if !cleanMode {
			for _, f := range append(append([]string{}, frames...), staleFrames...) {
				id := f[2:strings.Index(f, "]")]
				_, _, err := vxRefPrev("["+id+"]", path)
				vxrt.Assert(err == nil, "C05:clean-deletes-only-in-clean-mode")
			}
			vxrt.Assert(!hasStaleFile || vxReadFile(dir+"/old.snap") != "<missing>", "C05:clean-deletes-only-in-clean-mode")
			vxrt.Assert(!hasStaleStandalone || vxReadFile(dir+"/TestS_2.snap") != "<missing>", "C05:clean-deletes-only-in-clean-mode")
		}
		if ci {
			vxrt.Reach("ci")
			vxrt.Assert(vxrt.FSStamp() == stamp, "C05:ci-run-is-read-only")
		}
		if !sortOpt && !cleanMode {
			vxrt.Assert(vxrt.FSStamp() == stamp, "C05:no-write-without-clean-mode-or-sort")
		}
		if !sortOpt && nStaleEntries == 0 {
			vxrt.Assert(vxrt.Eq(after, before), "C05:sorts-only-when-asked")
		}
	}
}

// H_C07_symlink: the snapshot directory is reached through a symbolic link (as a temporary
// directory is on macOS); what this run addressed is neither listed nor touched by Clean, in
// report mode and in clean mode, and a stale file next to it is still found.
func H_C07_symlink() {
	vxrt.CI(false)
	vxrt.EnvFixed("NO_COLOR", "1")
	clean := vxrt.Bool("clean-mode")
	if clean {
		vxrt.EnvFixed("UPDATE_SNAPS", "clean")
	} else {
		vxrt.EnvFixed("UPDATE_SNAPS", "")
	}
	vxrt.Flag("test.run", "")
	vxrt.Flag("test.count", "1")
	base := vxrt.Dir()
	realDir, link := base+"/real", base+"/link"
	vxOs_MkdirAll(realDir + "/__snapshots__")
	vxrt.Symlink(realDir, link)
	dir := link + "/__snapshots__"
	vxWriteFile(dir+"/f.snap", vxFrame("TestA - 1", "a")+vxFrame("TestA - 2", "stale entry"))
	vxWriteFile(dir+"/old.snap", vxFrame("TestOld - 1", "stale file"))
	c := WithConfig(Dir(dir), Filename("f"))
	cs := WithConfig(Dir(dir))
	t := vxNewT("TestA")
	c.MatchSnapshot(t, "a")
	cs.MatchStandaloneSnapshot(t, "s")
	t.end()
	vxrt.Assert(len(t.errors) == 0, "setup:passes")
	Clean(nil)
	out := vxrt.Stdout()
	vxrt.Assert(!strings.Contains(out, "/f.snap\n") && !strings.Contains(out, "TestA_1.snap"), "C07:addressed-file-not-listed")
	vxrt.Assert(!strings.Contains(out, vxBullet+"TestA - 1\n"), "C07:addressed-entry-not-listed")
	got, _, err := vxRefPrev("[TestA - 1]", realDir+"/__snapshots__/f.snap")
	vxrt.Assert(err == nil && got == "a" && vxReadFile(realDir+"/__snapshots__/TestA_1.snap") == "s", "C07:addressed-entry-value-unchanged")
	vxrt.Assert(strings.Contains(out, vxBullet+"TestA - 2\n") && strings.Contains(out, "old.snap\n"), "C09:stale-entry-reported")
	vxrt.Assert((vxReadFile(realDir+"/__snapshots__/old.snap") == "<missing>") == clean, "C09:stale-file-removed-iff-clean-mode")
}

// H_C09_odd: stale items are reported (and removed in clean mode) also when (a) a test of the run
// addressed a snapshot file that does not exist - creation was not allowed, so the call failed -
// and (b) a stale entry's ordinal is written with leading zeros ("[TestA - 02]" while TestA
// addressed slots 1 and 2: the matcher only ever looks for "[TestA - 2]").
func H_C09_odd() {
	vxrt.CI(false)
	vxrt.EnvFixed("NO_COLOR", "1")
	clean := vxrt.Bool("clean-mode")
	if clean {
		vxrt.EnvFixed("UPDATE_SNAPS", "clean")
	} else {
		vxrt.EnvFixed("UPDATE_SNAPS", "")
	}
	vxrt.Flag("test.run", "")
	vxrt.Flag("test.count", "1")
	dir := vxrt.Dir()
	path := dir + "/f.snap"
	vxWriteFile(path, vxFrame("TestA - 1", "one")+vxFrame("TestA - 2", "two")+vxFrame("TestA - 02", "stale, zero-padded")+vxFrame("TestOld - 1", "stale"))
	c := WithConfig(Dir(dir), Filename("f"), Update(false))
	ta := vxNewT("TestA")
	c.MatchSnapshot(ta, "one")
	c.MatchSnapshot(ta, "two")
	ta.end()
	missing := vxrt.Bool("a-test-addressed-a-missing-file")
	if missing {
		cm := WithConfig(Dir(dir), Filename("not-there"), Update(false))
		tm := vxNewT("TestM")
		cm.MatchSnapshot(tm, "m")
		tm.end()
		vxrt.Assert(len(tm.errors) == 1 && vxReadFile(dir+"/not-there.snap") == "<missing>", "setup:missing-snapshot-fails")
	}
	vxrt.Assert(len(ta.errors) == 0, "setup:passes")
	Clean(nil)
	out := vxrt.Stdout()
	for _, id := range []string{"TestOld - 1", "TestA - 02"} {
		vxrt.Assert(strings.Contains(out, vxBullet+id+"\n"), "C09:stale-entry-reported")
		_, _, err := vxRefPrev("["+id+"]", path)
		vxrt.Assert((err != nil) == clean, "C09:stale-entry-removed-iff-clean-mode")
	}
	for _, e := range [][2]string{{"TestA - 1", "one"}, {"TestA - 2", "two"}} {
		got, _, err := vxRefPrev("["+e[0]+"]", path)
		vxrt.Assert(err == nil && got == e[1] && !strings.Contains(out, vxBullet+e[0]+"\n"), "C07:addressed-entry-value-unchanged")
	}
}

// H_C09_empty: a snapshot file a test addressed but that holds no complete entry (empty, or an
// entry that lost its end marker), in a mode where the missing snapshot may not be created:
// Clean leaves the file alone outside clean mode - it is in use, and whatever it holds is not
// Clean's to delete without permission.
func H_C09_empty() {
	vxrt.CISymbolic()
	vxrt.EnvFixed("NO_COLOR", "1")
	vxrt.EnvSymbolic("UPDATE_SNAPS", 5)
	vxrt.Flag("test.run", "")
	vxrt.Flag("test.count", "1")
	dir := vxrt.Dir()
	path := dir + "/e.snap"
	content := []string{"", "\n[TestE - 1]\nhalf written", "\n\n"}[vxrt.Choice("file-content", 3)]
	vxWriteFile(path, content)
	vxWriteFile(dir+"/f.snap", vxFrame("TestF - 1", "f"))
	ce := WithConfig(Dir(dir), Filename("e"), Update(false))
	cf := WithConfig(Dir(dir), Filename("f"), Update(false))
	te, tf := vxNewT("TestE"), vxNewT("TestF")
	ce.MatchSnapshot(te, "value")
	cf.MatchSnapshot(tf, "f")
	te.end()
	tf.end()
	vxrt.Assert(len(te.errors) == 1 && len(tf.errors) == 0 && vxReadFile(path) == content, "setup:missing-snapshot-fails")
	ci, env := ciinfo.IsCI, os.Getenv("UPDATE_SNAPS")
	cleanMode := !ci && (env == "true" || env == "clean")
	Clean(nil)
	if !cleanMode {
		vxrt.Assert(vxReadFile(path) == content, "C09:report-mode-writes-nothing")
	}
}

// H_C07_unclean: the snapshot directory is given in a spelling that is not in clean form (a
// trailing separator, a doubled separator, a detour through ..): what this run addressed there is
// neither listed nor touched by Clean, in report mode and in clean mode, and a stale file next to
// it is still found.
func H_C07_unclean() {
	vxrt.CI(false)
	vxrt.EnvFixed("NO_COLOR", "1")
	clean := vxrt.Bool("clean-mode")
	if clean {
		vxrt.EnvFixed("UPDATE_SNAPS", "clean")
	} else {
		vxrt.EnvFixed("UPDATE_SNAPS", "")
	}
	vxrt.Flag("test.run", "")
	vxrt.Flag("test.count", "1")
	base := vxrt.Dir()
	real := base + "/pkg/__snapshots__"
	vxOs_MkdirAll(base + "/pkg/other")
	spelled := []string{base + "/pkg/__snapshots__/", base + "/pkg//__snapshots__", base + "/pkg/other/../__snapshots__", base + "/pkg/./__snapshots__"}[vxrt.Choice("spelling", 4)]
	vxWriteFile(real+"/f.snap", vxFrame("TestA - 1", "a")+vxFrame("TestA - 2", "stale entry"))
	vxWriteFile(real+"/old.snap", vxFrame("TestOld - 1", "stale file"))
	c := WithConfig(Dir(spelled), Filename("f"))
	cs := WithConfig(Dir(spelled))
	t := vxNewT("TestA")
	c.MatchSnapshot(t, "a")
	cs.MatchStandaloneSnapshot(t, "s")
	t.end()
	vxrt.Assert(len(t.errors) == 0, "setup:passes")
	Clean(nil)
	out := vxrt.Stdout()
	vxrt.Assert(!strings.Contains(out, "f.snap\n") && !strings.Contains(out, "TestA_1.snap"), "C07:addressed-file-not-listed")
	vxrt.Assert(!strings.Contains(out, vxBullet+"TestA - 1\n"), "C07:addressed-entry-not-listed")
	got, _, err := vxRefPrev("[TestA - 1]", real+"/f.snap")
	vxrt.Assert(err == nil && got == "a" && vxReadFile(real+"/TestA_1.snap") == "s", "C07:addressed-entry-value-unchanged")
	vxrt.Assert(strings.Contains(out, vxBullet+"TestA - 2\n") && strings.Contains(out, "old.snap\n"), "C09:stale-entry-reported")
	vxrt.Assert((vxReadFile(real+"/old.snap") == "<missing>") == clean, "C09:stale-file-removed-iff-clean-mode")
}
