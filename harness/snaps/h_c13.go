//go:build verif || verif_replay

package snaps

import (
	"strconv"
	"strings"

	"github.com/gkampitakis/go-snaps/internal/vxrt"
)

// H_C13_empty: prettyDiff(a, b) == "" iff a == b, colours on and off.
func H_C13_empty() {
	vxrt.EnvPresent("NO_COLOR")
	n := vxrt.Param("n", 3)
	a := vxrt.Text("a", vxrt.Len("na", vxrt.Param("nalo", 0), vxrt.Param("nahi", n)))
	b := vxrt.Text("b", vxrt.Len("nb", vxrt.Param("nblo", 0), vxrt.Param("nbhi", n)))
	if vxrt.Param("ascii", 0) == 1 {
		vxrt.Assume(vxrt.And(asciiOnly(a), asciiOnly(b)))
	}
	rep := prettyDiff(a, b, "x.snap", 1)
	vxrt.Assert(vxrt.Eq(a, b) == (rep == ""), "C13:empty-iff-identical")
}

// H_C13_render: in NO_COLOR mode the report adds no escape sequences, header
// counts equal the numbers of -/+ lines shown, every - line is a line of the
// stored text, every + line a line of the received text, and removing the
// shown lines from both texts leaves the same lines.
func H_C13_render() {
	vxrt.EnvFixed("NO_COLOR", "1")
	la := vxrt.Len("la", 0, vxrt.Param("lines", 3))
	lb := vxrt.Len("lb", 0, vxrt.Param("lines", 3))
	mk := func(label string, n int) (string, []string) {
		text := ""
		var lines []string
		for i := 0; i < n; i++ {
			c := vxrt.Text(label, 1)
			// line content: one byte that is neither a newline, ESC, nor one of the report's own markers
			vxrt.Assume(vxrt.Or(vxrt.And(c[0] >= 'a', c[0] <= 'z'), c[0] == '%'))
			text += c
			lines = append(lines, c+"\n")
			if i < n-1 {
				text += "\n"
			}
		}
		if n > 0 && vxrt.Bool(label+"-final-newline") {
			text += "\n"
			lines = append(lines, "\n")
		}
		if n == 0 {
			lines = []string{"\n"}
		}
		return text, lines
	}
	a, aLines := mk("a", la)
	b, bLines := mk("b", lb)
	vxrt.Assume(differs(a, b))
	rep := prettyDiff(a, b, "", 1)
	vxrt.Assert(rep != "", "C13:nonempty-for-different")
	vxrt.Assert(!strings.Contains(rep, "\x1b"), "C13:no-escape-sequences")

	lines := strings.Split(rep, "\n")
	// header: "", "- Snapshot - N", "+ Received + M", "", body..., ""
	okHeader := len(lines) >= 4 && lines[0] == "" && strings.HasPrefix(lines[1], "- Snapshot ") && strings.HasPrefix(lines[2], "+ Received ")
	vxrt.Assert(okHeader, "C13:header-shape")
	if !okHeader {
		return
	}
	del, _ := strconv.Atoi(strings.TrimSpace(lines[1][strings.LastIndex(lines[1], "- ")+2:]))
	ins, _ := strconv.Atoi(strings.TrimSpace(lines[2][strings.LastIndex(lines[2], "+ ")+2:]))
	var minus, plus []string
	for _, l := range lines[4:] {
		if strings.HasPrefix(l, "- ") {
			minus = append(minus, l[2:]+"\n")
		} else if strings.HasPrefix(l, "+ ") {
			plus = append(plus, l[2:]+"\n")
		} else if l == "-" {
			minus = append(minus, "\n")
		}
	}
	vxrt.Assert(del == len(minus), "C13:deleted-count-matches")
	vxrt.Assert(ins == len(plus), "C13:inserted-count-matches")
	restsA := removals(aLines, minus)
	restsB := removals(bLines, plus)
	vxrt.Assert(len(restsA) > 0, "C13:minus-lines-are-stored-lines")
	vxrt.Assert(len(restsB) > 0, "C13:plus-lines-are-received-lines")
	same := false
	for _, ra := range restsA {
		for _, rb := range restsB {
			if len(ra) != len(rb) {
				continue
			}
			eq := true
			for i := range ra {
				eq = eq && ra[i] == rb[i]
			}
			same = same || eq
		}
	}
	vxrt.Assert(same, "C13:remaining-lines-equal")
}

// removals returns every sequence that can be obtained from `from` by taking
// out the lines of `shown`, in order (each as a distinct position).
func removals(from, shown []string) [][]string {
	if len(shown) == 0 {
		return [][]string{append([]string(nil), from...)}
	}
	var out [][]string
	for i := 0; i < len(from); i++ {
		if from[i] != shown[0] {
			continue
		}
		for _, rest := range removals(from[i+1:], shown[1:]) {
			seq := append(append([]string(nil), from[:i]...), rest...)
			out = append(out, seq)
		}
	}
	return out
}
