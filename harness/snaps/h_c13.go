//go:build verif || verif_replay

package snaps

import (
	"strconv"
	"strings"

	"github.com/gkampitakis/go-snaps/internal/vxrt"
)

// H_C13_empty: prettyDiff(a, b) == "" iff a == b, colours on and off.
func H_C13_empty() {
	vxrt.EnvPresent("NO_COLOR")
	vxCalibratePrettyDiff()
	n := vxrt.Param("n", 3)
	a := vxrt.Text("a", vxrt.Len("na", vxrt.Param("nalo", 0), vxrt.Param("nahi", n)))
	b := vxrt.Text("b", vxrt.Len("nb", vxrt.Param("nblo", 0), vxrt.Param("nbhi", n)))
	if vxrt.Param("ascii", 0) == 1 {
		vxrt.Assume(vxrt.And(vxAsciiOnly(a), vxAsciiOnly(b)))
	}
	rep := prettyDiff(a, b, "x.snap", 1)
	vxrt.Assert(vxrt.Eq(a, b) == (rep == ""), "C13:empty-iff-identical")
}

// H_C13_render: in NO_COLOR mode the report adds no escape sequences, header
// counts equal the numbers of -/+ lines shown, every - line is a line of the
// stored text, every + line a line of the received text, and removing the
// shown lines from both texts leaves the same lines.
func H_C13_render() {
	// NO_COLOR mode is on when the variable is present, whatever its value (also empty)
	if vxrt.Bool("NO_COLOR-is-set-but-empty") {
		vxrt.EnvFixed("NO_COLOR", "")
	} else {
		vxrt.EnvFixed("NO_COLOR", "1")
	}
	vxCalibratePrettyDiff()
	la := vxrt.Len("la", 0, vxrt.Param("lines", 3))
	lb := vxrt.Len("lb", 0, vxrt.Param("lines", 3))
	mk := func(label string, n int) (string, []string) {
		text := ""
		var lines []string
		for i := 0; i < n; i++ {
			c := vxrt.Text(label, 1)
			// line content: one byte that is neither a newline, ESC, nor one of the report's own markers
			// (a letter, '%', or a byte that is not valid UTF-8 on its own: Latin-1 text)
			vxrt.Assume(vxrt.Or(vxrt.Or(vxrt.And(c[0] >= 'a', c[0] <= 'z'), c[0] == '%'), vxrt.Or(c[0] == 0xe9, c[0] == 0x80)))
			text += c
			lines = append(lines, c+"\n")
			if i < n-1 {
				text += "\n"
			}
		}
		if n > 0 && vxrt.Bool(label+"-final-newline") {
			text += "\n"
			lines = append(lines, "\n")
		}
		if n == 0 {
			lines = []string{"\n"}
		}
		return text, lines
	}
	a, aLines := mk("a", la)
	b, bLines := mk("b", lb)
	vxrt.Assume(vxDiffers(a, b))
	rep := prettyDiff(a, b, "", 1)
	vxCheckDiffReport(rep, aLines, bLines)
}

// checkDiffReport: the NO_COLOR report of two different texts: no escape sequences, header counts
// equal the numbers of -/+ lines shown, every - line is a line of the stored text, every + line a
// line of the received text, and taking the shown lines out of both texts leaves the same lines.
func vxCheckDiffReport(rep string, aLines, bLines []string) {
	vxrt.Assert(rep != "", "C13:nonempty-for-different")
	vxrt.Assert(!strings.Contains(rep, "\x1b"), "C13:no-escape-sequences")

	lines := strings.Split(rep, "\n")
	// header: "", "- Snapshot - N", "+ Received + M", "", body..., ""
	okHeader := len(lines) >= 4 && lines[0] == "" && strings.HasPrefix(lines[1], "- Snapshot ") && strings.HasPrefix(lines[2], "+ Received ")
	vxrt.Assert(okHeader, "C13:header-shape")
	if !okHeader {
		return
	}
	del, _ := strconv.Atoi(strings.TrimSpace(lines[1][strings.LastIndex(lines[1], "- ")+2:]))
	ins, _ := strconv.Atoi(strings.TrimSpace(lines[2][strings.LastIndex(lines[2], "+ ")+2:]))
	var minus, plus []string
	for _, l := range lines[4:] {
		if strings.HasPrefix(l, "- ") {
			minus = append(minus, l[2:]+"\n")
		} else if strings.HasPrefix(l, "+ ") {
			plus = append(plus, l[2:]+"\n")
		} else if l == "-" {
			minus = append(minus, "\n")
		}
	}
	vxrt.Assert(del == len(minus), "C13:deleted-count-matches")
	vxrt.Assert(ins == len(plus), "C13:inserted-count-matches")
	restsA := vxRemovals(aLines, minus)
	restsB := vxRemovals(bLines, plus)
	vxrt.Assert(len(restsA) > 0, "C13:minus-lines-are-stored-lines")
	vxrt.Assert(len(restsB) > 0, "C13:plus-lines-are-received-lines")
	same := false
	for _, ra := range restsA {
		for _, rb := range restsB {
			if len(ra) != len(rb) {
				continue
			}
			eq := true
			for i := range ra {
				eq = eq && ra[i] == rb[i]
			}
			same = same || eq
		}
	}
	vxrt.Assert(same, "C13:remaining-lines-equal")
}

// H_C13_render_long: two texts of 24 distinct lines that differ in two places far enough apart
// to land in separate hunks (each place: a changed, a removed or an added line); the same checks
// as H_C13_render, in particular the header counts cover every hunk.
func H_C13_render_long() {
	vxrt.EnvFixed("NO_COLOR", "1")
	vxCalibratePrettyDiff()
	n := vxrt.Param("lines", 24)
	p1 := 2 + vxrt.Choice("first-place", 2)
	p2 := n - 4 + vxrt.Choice("second-place", 2)
	k1, k2 := vxrt.Choice("first-kind", 3), vxrt.Choice("second-kind", 3)
	longLine := vxrt.Bool("one-very-long-line")
	bigChange := k1 == 0 && vxrt.Bool("the-first-change-is-between-40KB-lines")
	var aLines, bLines []string
	for i := 0; i < n; i++ {
		l := "line " + vxItoa(i) + "\n"
		if longLine && i == n/2 {
			// a line longer than any fixed reader buffer, between the two places
			filler := make([]byte, 5000)
			for k := range filler {
				filler[k] = 'x'
			}
			l = "long " + string(filler) + "\n"
		}
		kind := -1
		if i == p1 {
			kind = k1
		} else if i == p2 {
			kind = k2
		}
		switch kind {
		case 0: // changed
			ch := "changed " + vxItoa(i) + "\n"
			if bigChange && i == p1 {
				// both sides of the first change are 40 000-byte lines: the report is larger than 64 KiB
				old, nw := make([]byte, 40000), make([]byte, 40000)
				for k := range old {
					old[k], nw[k] = 'o', 'n'
				}
				l, ch = "old "+string(old)+"\n", "new "+string(nw)+"\n"
			}
			aLines = append(aLines, l)
			bLines = append(bLines, ch)
		case 1: // removed
			aLines = append(aLines, l)
		case 2: // added
			aLines = append(aLines, l)
			bLines = append(bLines, l, "added "+vxItoa(i)+"\n")
		default:
			aLines = append(aLines, l)
			bLines = append(bLines, l)
		}
	}
	a, b := strings.Join(aLines, ""), strings.Join(bLines, "")
	rep := prettyDiff(a, b, "", 1)
	// the texts end in a newline: the split keeps a final empty element, shown as a bare line
	vxCheckDiffReport(rep, append(aLines, "\n"), append(bLines, "\n"))
}

// removals returns every sequence that can be obtained from `from` by taking
// out the lines of `shown`, in order (each as a distinct position).
func vxRemovals(from, shown []string) [][]string {
	if len(shown) == 0 {
		return [][]string{append([]string(nil), from...)}
	}
	var out [][]string
	for i := 0; i < len(from); i++ {
		if from[i] != shown[0] {
			continue
		}
		for _, rest := range vxRemovals(from[i+1:], shown[1:]) {
			seq := append(append([]string(nil), from[:i]...), rest...)
			out = append(out, seq)
		}
	}
	return out
}

// H_C13_collisions: lines that collide under widespread 32-bit string hashes (FNV-1a, FNV-1,
// CRC-32, the 31-multiplier hash, djb2) are different lines: a solver cannot be expected to find
// such pairs (multiplication chains), so the known ones are given. The report of two texts that
// differ in exactly such a pair is not empty and shows both lines.
func H_C13_collisions() {
	vxrt.EnvPresent("NO_COLOR")
	vxCalibratePrettyDiff()
	pairs := [][2]string{{"costarring", "liquid"}, {"declinate", "macallums"}, {"altarage", "zinke"}, {"creamwove", "quists"}, {"plumless", "buckeroo"}, {"Aa", "BB"}, {"hetairas", "mentioner"}, {"heliotropes", "neurospora"}}
	p := pairs[vxrt.Choice("pair", len(pairs))]
	x, y := p[0], p[1]
	if vxrt.Bool("swap") {
		x, y = y, x
	}
	a := "first\n" + x + "\nlast\n"
	b := "first\n" + y + "\nlast\n"
	rep := prettyDiff(a, b, "", 1)
	vxrt.Assert(rep != "", "C13:empty-iff-identical")
	vxrt.Assert(strings.Contains(rep, x) && strings.Contains(rep, y), "C13:minus-lines-are-stored-lines")
}
