//go:build verif || verif_replay

package snaps

import (
	"github.com/gkampitakis/go-snaps/internal/vxrt"
	"github.com/goccy/go-yaml"
)

// yamlDoc returns a document: fully symbolic (shape 0) or one of the
// part-concrete shapes the property names.
func vxYamlDoc(n int) string {
	switch vxrt.Choice("yaml-shape", vxrt.Param("shapes", 8)) {
	case 0: // documents the YAML library is known to reject (the oracle is free either way; only
		// the answer the real library gives is confirmed natively)
		return []string{"[", "a: b: c", "key: [1, 2", "{"}[vxrt.Choice("broken-document", 4)]
	case 6: // line-structured around the storage tokens
		return vxStructText("doc", 2)
	case 7: // arbitrary bytes
		return vxrt.Text("doc", vxrt.Len("doc-len", 0, n))
	case 1: // multi-document stream
		return "a: " + vxrt.Text("v1", 1) + "\n---\nb: " + vxrt.Text("v2", 1) + vxFinalNL()
	case 2: // block scalar containing a terminator-like line
		return "k: |\n  " + vxrt.Text("v1", 1) + "\n---\n"
	case 3: // comment and key order
		return "# " + vxrt.Text("c", 1) + "\nz: 1\na: 2" + vxFinalNL()
	case 4: // flow sequence that looks like an entry header
		return "[TestA - 1]" + vxFinalNL()
	default: // trailing blank lines
		return "a: " + vxrt.Text("v1", 1) + "\n\n" + vxFinalNL()
	}
}

func vxFinalNL() string {
	if vxrt.Bool("final-newline") {
		return "\n"
	}
	return ""
}

// H_C18_yaml: MatchYAML stores string or byte input exactly as given, replays
// it without failure, and rejects what the YAML library rejects without writing.
func H_C18_yaml() {
	vxrt.CI(false)
	dir := vxrt.Dir()
	c := WithConfig(Dir(dir), Filename("f"))
	doc := vxYamlDoc(vxrt.Param("n", 4))
	vxrt.Assume(vxNoCRAtEOL(doc))
	asBytes := vxrt.Bool("as-bytes")
	var in any = doc
	if asBytes {
		in = []byte(doc)
	}
	if vxrt.Bool("slot-already-holds-this-text") {
		// the slot was recorded earlier through MatchSnapshot with the very same text (a test being
		// migrated to MatchYAML): a document the library rejects is still rejected
		vxWriteFile(dir+"/f.snap", vxFrame("TestA - 1", vxEscapeRef(doc)))
		before := vxDumpDir(dir)
		tm := vxNewT("TestA")
		c.MatchYAML(tm, in)
		tm.end()
		vxrt.Assert(len(tm.logs) == 0 && vxrt.Eq(vxDumpDir(dir), before), "C18:replay-writes-nothing")
		// what the library says about the document decides, not what happens to be stored: a
		// call for a fresh slot with the same document gets the same verdict
		t0 := vxNewT("TestFresh")
		c.MatchYAML(t0, in)
		t0.end()
		vxrt.Assert((len(tm.errors) > 0) == (len(t0.errors) > 0), "C18:invalid-fails-once")
		return
	}
	empty := vxDumpDir(dir)
	t1 := vxNewT("TestA")
	c.MatchYAML(t1, in)
	t1.end()
	// the reference verdict: what the YAML library says about the document as such (decoded into
	// an empty interface, which every valid document fits)
	var ref any
	refValid := yaml.Unmarshal([]byte(doc), &ref) == nil
	vxrt.Assert((len(t1.errors) == 0) == refValid, "C18:accepted-iff-valid-yaml")
	if len(t1.errors) > 0 {
		vxrt.Reach("invalid")
		// the library said invalid: one error, nothing written
		vxrt.Assert(len(t1.errors) == 1 && len(t1.logs) == 0, "C18:invalid-fails-once")
		vxrt.Assert(vxrt.Eq(vxDumpDir(dir), empty), "C18:invalid-writes-nothing")
		return
	}
	vxrt.Reach("valid")
	vxrt.Assert(len(t1.logs) == 1, "C18:record")
	file := vxReadFile(dir + "/f.snap")
	vxrt.Assert(vxrt.Eq(file, vxFrame("TestA - 1", vxEscapeRef(doc))), "C18:stored-body-is-escaped-document")
	if vxrt.Param("known_K1", 1) == 1 {
		vxrt.Assume(vxrt.Not(vxHasLine(doc, "/-/-/-/")))
	}
	got, _, err := vxRefPrev("[TestA - 1]", dir+"/f.snap")
	vxrt.Assert(err == nil && vxrt.Eq(unescapeEndChars(got), doc), "C18:document-reads-back-verbatim")
	stamp := vxrt.FSStamp()
	t2 := vxNewT("TestA")
	c.MatchYAML(t2, in)
	t2.end()
	vxrt.Assert(len(t2.errors) == 0 && len(t2.logs) == 0, "C18:replay-passes")
	vxrt.Assert(vxrt.FSStamp() == stamp, "C18:replay-writes-nothing")
	if asBytes {
		vxrt.Assert(vxrt.Eq(string(in.([]byte)), doc), "C18:caller-bytes-untouched")
	}
}
