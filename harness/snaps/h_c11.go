//go:build verif || verif_replay

package snaps

import (
	"path/filepath"
	"runtime"
	"strings"
	"testing"

	"github.com/gkampitakis/go-snaps/internal/vxrt"
)

// the two wrappers give snapshotPath the call depth it has below an exported
// Match* function (it skips itself, the match* wrapper and the exported func).
func vxH11Exported(c *Config, name string, standalone bool) (string, string) {
	return vxH11Inner(c, name, standalone)
}

func vxH11Inner(c *Config, name string, standalone bool) (string, string) {
	return snapshotPath(c, name, standalone)
}

// helper frames in non-test source files between the test function and the call
func vxH11Helper1(c *Config, name string, standalone bool, depth int) (string, string) {
	vxrt.FrameFile("/pkg/helpers.go")
	if depth > 1 {
		return vxH11Helper2(c, name, standalone)
	}
	return vxH11Exported(c, name, standalone)
}

func vxH11Helper2(c *Config, name string, standalone bool) (string, string) {
	vxrt.FrameFile("/lib/deep/util.go")
	f := func() (string, string) { return vxH11Exported(c, name, standalone) }
	return f()
}

// a test function in a second test file of the package: natively the closure is
// provided by other_test.go of the harness directory, symbolically the frame is tagged
var vxViaOtherTestFile func(func())
var vxOtherTestFileBase = "other.dot_test"

func vxH11ViaOther(f func()) {
	if vxrt.Symbolic() {
		vxrt.FrameFile("/pkg/other.dot_test.go")
		f()
		return
	}
	vxViaOtherTestFile(f)
}

func vxSymSuffix(label string, n int) string {
	s := vxrt.Text(label, vxrt.Len(label+"-len", 0, n))
	for i := 0; i < len(s); i++ {
		ch := s[i]
		// path-safe bytes: letters, digits, '.', '_', '-'  (and '%' when allowed)
		ok := vxrt.Or(vxrt.Or(vxrt.And(ch >= 'a', ch <= 'z'), vxrt.And(ch >= '0', ch <= '9')), vxrt.Or(ch == '.', vxrt.Or(ch == '_', ch == '-')))
		if vxrt.Param("percent", 0) == 1 {
			ok = vxrt.Or(ok, ch == '%')
		}
		vxrt.Assume(ok)
	}
	return s
}

// H_C11_location: where a snapshot lives is the documented function of test
// file, test name and options; independent of helper frames and of -trimpath.
func H_C11_location() {
	vxrt.FrameFile("/pkg/x_test.go")
	vxrt.Chdir()
	trim := vxrt.Bool("trimpath")
	vxrt.Trimpath(trim)
	if !trim {
		// GOFLAGS of an ordinary build: empty, or flags that are not -trimpath
		if vxrt.Bool("GOFLAGS-with-other-flags") {
			vxrt.EnvFixed("GOFLAGS", "-mod=mod  -count=1 -trimpath=false")
		}
	}
	vxCalibrateSnapshotPath()
	n := vxrt.Param("n", 2)
	testDir := vxrt.TestFileDir()

	var opts []func(*Config)
	dirOpt := "__snapshots__"
	switch vxrt.Choice("dir", 8) {
	case 7:
		// an explicitly empty Dir: the snapshots sit next to the test file
		dirOpt = ""
		opts = append(opts, Dir(dirOpt))
	case 4:
		dirOpt = "."
		opts = append(opts, Dir(dirOpt))
	case 5:
		dirOpt = "./d" + vxSymSuffix("dir", n)
		opts = append(opts, Dir(dirOpt))
	case 6:
		dirOpt = "../d" + vxSymSuffix("dir", n)
		opts = append(opts, Dir(dirOpt))
	case 1:
		dirOpt = "snaps" + vxSymSuffix("dir", n)
		opts = append(opts, Dir(dirOpt))
	case 2:
		dirOpt = "a/b" + vxSymSuffix("dir", n)
		opts = append(opts, Dir(dirOpt))
	case 3:
		dirOpt = "/abs/x" + vxSymSuffix("dir", n)
		opts = append(opts, Dir(dirOpt))
	}
	fileOpt := ""
	if vxrt.Bool("with-filename") {
		fileOpt = "fn" + vxSymSuffix("filename", n)
		opts = append(opts, Filename(fileOpt))
	}
	extOpt := ""
	if vxrt.Bool("with-ext") {
		extOpt = ".e" + vxSymSuffix("ext", n)
		opts = append(opts, Ext(extOpt))
	}
	c := WithConfig(opts...)
	name := "Test" + vxSymSuffix("name", n)
	if vxrt.Param("percent", 0) == 1 && vxrt.Bool("name-contains-percent-d") {
		name += "%d"
	}
	if vxrt.Bool("subtest") {
		name += "/" + vxSymSuffix("sub", n)
	}
	if vxrt.Param("known_K6", 1) == 1 {
		// known finding K6: '%' in a standalone location (it is used as a format string)
	}
	api := vxrt.Choice("api", 3) // multi-entry, standalone, standalone JSON
	standalone := api > 0
	cc := *c
	if api == 2 && cc.extension == "" {
		cc.extension = ".json"
	}
	ccBefore := cc
	defer func() {
		vxrt.Assert(vxCfgEqual(cc, ccBefore) && vxCfgEqual(*c, ccBefore) || api == 2 && vxCfgEqual(cc, ccBefore), "C12:config-unchanged-by-path-resolution")
	}()
	helpers := vxrt.Choice("helper-frames", 4)
	compute := func() string {
		var got string
		switch helpers {
		case 0:
			got, _ = vxH11Exported(&cc, name, standalone)
		case 3:
			// many frames of a helper in a non-test file of another directory
			vxrt.Deep(vxrt.Param("deep", 40), func() { got, _ = vxH11Exported(&cc, name, standalone) })
		default:
			got, _ = vxH11Helper1(&cc, name, standalone, helpers)
		}
		return got
	}
	got := compute()
	if !standalone && helpers != 3 && vxrt.Bool("then-from-a-second-test-file") {
		// the same call sites reached afterwards from a test function in another test file
		// of the package: the location follows that file
		defer func() {
			var got2 string
			vxH11ViaOther(func() { got2 = compute() })
			base := fileOpt
			if base == "" {
				base = vxOtherTestFileBase
			}
			want := vxExpectedDir(testDir, dirOpt, trim) + "/" + base + ".snap" + extOpt
			vxrt.Assert(vxrt.Eq(got2, filepath.Clean(want)), "C11:location-follows-the-calling-test-file")
		}()
	}
	if standalone {
		k := vxrt.Len("kth-call", 1, 2)
		var p string
		for i := 0; i < k; i++ {
			p, _ = standaloneTestsRegistry.getTestID(got, got)
		}
		got = p
		defer standaloneTestsRegistry.reset(got)
		// expected
		base := fileOpt
		if base == "" {
			base = vxReplaceSlash(name)
		}
		want := vxExpectedDir(testDir, dirOpt, trim) + "/" + base + "_" + vxItoa(k) + ".snap" + cc.extension
		vxrt.Assert(vxrt.Eq(got, filepath.Clean(want)), "C11:standalone-location")
		return
	}
	base := fileOpt
	if base == "" {
		base = vxrt.TestFileBase()
	}
	want := vxExpectedDir(testDir, dirOpt, trim) + "/" + base + ".snap" + extOpt
	vxrt.Assert(vxrt.Eq(got, filepath.Clean(want)), "C11:multi-entry-location")
}

// expectedDir: Dir when absolute, otherwise the test file's directory joined
// with Dir. Under -trimpath the working directory is the package directory,
// so a relative result resolves to the same place.
func vxExpectedDir(testDir, dirOpt string, trim bool) string {
	if dirOpt == "" {
		if trim {
			return "."
		}
		return testDir
	}
	if dirOpt[0] == '/' {
		return dirOpt
	}
	if trim {
		return dirOpt
	}
	return testDir + "/" + dirOpt
}

func vxReplaceSlash(s string) string {
	out := ""
	for i := 0; i < len(s); i++ {
		if s[i] == '/' {
			out += "_"
		} else {
			out += s[i : i+1]
		}
	}
	return out
}

// H_C11_nontest: the test function itself lives in a non-test source file (a body handed to
// t.Run from a suite package runs on a stack of its own, rooted in testing.tRunner, with no
// _test.go frame on it) and
// reaches go-snaps through code in another non-test file: the snapshot belongs to the test
// function's file (the outermost frame), not to the file of whatever frame sits next to go-snaps.
func H_C11_nontest() {
	vxrt.Chdir()
	vxCalibrateSnapshotPath()
	var opts []func(*Config)
	dirOpt := "__snapshots__"
	switch vxrt.Choice("dir", 3) {
	case 1:
		dirOpt = "snaps/x"
		opts = append(opts, Dir(dirOpt))
	case 2:
		dirOpt = "/abs/x"
		opts = append(opts, Dir(dirOpt))
	}
	c := WithConfig(opts...)
	standalone := vxrt.Bool("standalone")
	var got, rootFile string
	viaTesting := vxrt.Bool("helper-in-a-file-named-testing/testing.go")
	vxrt.RunAsSubtest(func(*testing.T) {
		_, rootFile, _, _ = runtime.Caller(0)
		if viaTesting {
			got, _ = vxH11cHelper(c, "TestN", standalone)
		} else {
			got, _ = vxH11bHelper(c, "TestN", standalone)
		}
	})
	base := strings.TrimSuffix(filepath.Base(rootFile), ".go")
	name := base + ".snap"
	if standalone {
		name = "TestN_%d.snap"
	}
	want := filepath.Join(filepath.Dir(rootFile), dirOpt, name)
	if dirOpt[0] == '/' {
		want = filepath.Join(dirOpt, name)
	}
	vxrt.Logf("got=" + got + " want=" + want + " root=" + rootFile)
	vxrt.Assert(got == want, "C11:location-follows-the-test-function's-file")
}

// H_C11_created: observed from outside - with an absolute Dir (below the scratch directory) and
// the working directory somewhere else, each entry point creates its first snapshot exactly at
// the documented absolute location, and replays it from there.
func H_C11_created() {
	vxrt.CI(false)
	vxrt.YAMLAssume(true)
	vxrt.Chdir()
	dir := vxrt.Dir() + "/abs/snaps"
	opts := []func(*Config){Dir(dir), Filename("fn")}
	// Ext is appended as given: with a leading dot or without one
	ext := []string{"", ".txt", "golden"}[vxrt.Choice("ext", 3)]
	if ext != "" {
		opts = append(opts, Ext(ext))
	}
	c := WithConfig(opts...)
	api := vxrt.Choice("api", 5)
	want := dir + "/fn.snap" + ext
	switch api {
	case 3:
		want = dir + "/fn_1.snap" + ext
	case 4:
		want = dir + "/fn_1.snap" + ext
		if ext == "" {
			want += ".json"
		}
	}
	for round := 0; round < 2; round++ {
		t := vxNewT("TestN")
		vxCallAPI(c, api, t, `"v"`)
		t.end()
		vxrt.Assert(len(t.errors) == 0 && len(t.logs) == 1-round, "C11:created-then-replayed")
		vxrt.Assert(vxReadFile(want) != "<missing>", "C11:created-at-the-documented-location")
		names, _ := vxOsReadDirNames(dir)
		vxrt.Assert(len(names) == 1, "C11:nothing-else-created")
	}
}

// H_C11_longname: the default standalone file name is the whole test name (with / replaced by _),
// also for names of 200..240 bytes, which are legal file names: two sub-tests whose names share a
// long prefix get a file each.
func H_C11_longname() {
	vxrt.CI(false)
	vxrt.YAMLAssume(true)
	dir := vxrt.Dir()
	c := WithConfig(Dir(dir))
	n := []int{150, 199, 201, 230}[vxrt.Choice("name-length", 4)]
	stem := make([]byte, n)
	for i := range stem {
		stem[i] = 'a' + byte(i%26)
	}
	json := vxrt.Bool("json")
	sfx := ".snap"
	if json {
		sfx = ".snap.json"
	}
	for _, last := range []string{"x", "y"} {
		name := "TestLong/" + string(stem) + last
		t := vxNewT(name)
		v := `"` + last + `"`
		if json {
			c.MatchStandaloneJSON(t, v)
		} else {
			c.MatchStandaloneSnapshot(t, v)
		}
		t.end()
		vxrt.Assert(len(t.errors) == 0 && len(t.logs) == 1, "C11:created")
		vxrt.Assert(vxReadFile(dir+"/TestLong_"+string(stem)+last+"_1"+sfx) == v, "C11:standalone-name-is-the-test-name")
	}
	// only '/' is replaced: sub-test names with other punctuation keep it
	for _, sub := range []string{"host:port", `a\b`, "50%", "x y", "q?*"} {
		t := vxNewT("TestP/" + sub)
		if json {
			c.MatchStandaloneJSON(t, `"p"`)
		} else {
			c.MatchStandaloneSnapshot(t, `"p"`)
		}
		t.end()
		vxrt.Assert(len(t.errors) == 0 && vxReadFile(dir+"/TestP_"+sub+"_1"+sfx) == `"p"`, "C11:standalone-name-is-the-test-name")
	}
}
