#!/usr/bin/env python3
"""saveseed.py <PID> <k> <caught-by> <needs...> : copies a confirmed seeded change into /verif/seeded."""
import json, os, shutil, sys
pid, k, caught = sys.argv[1:4]
needs = " ".join(sys.argv[4:])
src = os.environ.get("SEEDOUT", "/tmp/seed/out") + f"/{pid}"
dst = f"/verif/seeded/{pid}-{k}" + os.environ.get("SEEDSUFFIX", "")
os.makedirs(dst, exist_ok=True)
shutil.copy(f"{src}/patch{k}.diff", f"{dst}/patch.diff")
shutil.copy(f"{src}/demo{k}_test.go", f"{dst}/demo_test.go.txt")
meta = {
    "property": pid,
    "what": open(f"{src}/meta{k}.txt").read().strip(),
    "needs_to_manifest": needs,
    "confirmed": "applied to /repo with `git apply`; `go build ./...` and the full suite `go test -vet=off -count=1 ./...` pass with the change; "
                 "the demonstration test (demo_test.go.txt, copy it to the directory named on its first line as *_test.go) fails with the change and passes without it; "
                 "then `./check <id> quick` was run against the changed tree and the change undone with `git -C /repo checkout -- .` (script: /verif/seedtest.sh)",
    "caught_by": caught,
}
json.dump(meta, open(f"{dst}/meta.json", "w"), indent=1)
print("saved", dst)
