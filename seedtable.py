#!/usr/bin/env python3
"""seedtable.py: regenerates the table of DESIGN.md section 11 from seeded/*/meta.json
(between the markers <!-- seedtable:begin --> and <!-- seedtable:end -->)."""
import json, glob, os, re
rows = []
caught = missed = 0
def key(d):
    n = os.path.basename(d.rstrip('/')).split('-')
    return (n[0], n[1], n[2] if len(n) > 2 else '')
for d in sorted(glob.glob('seeded/*/'), key=key):
    name = os.path.basename(d.rstrip('/'))
    m = json.load(open(d + 'meta.json'))
    what = m['what'].split('\n')[0]
    what = re.sub(r'^Change[^:]*:\s*', '', what)
    what = what.replace('|', '/')[:110]
    cb = m['caught_by'].replace('|', '/')
    if cb.startswith('NOT CAUGHT'):
        missed += 1
        cb = '**missed** — ' + cb[len('NOT CAUGHT'):].lstrip(' (:-')[:160]
    else:
        caught += 1
    rows.append(f'| {name} | {what} | {cb} |')
table = '| change | what it does (first line of the author\'s note) | caught by |\n|---|---|---|\n' + '\n'.join(rows)
s = open('DESIGN.md').read()
b, e = '<!-- seedtable:begin -->', '<!-- seedtable:end -->'
if b in s:
    s = s[:s.index(b) + len(b)] + '\n' + table + '\n' + s[s.index(e):]
    open('DESIGN.md', 'w').write(s)
print(f'caught={caught} missed={missed} total={caught+missed}')
