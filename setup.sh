#!/bin/sh
# Builds the symbolic executor from files on disk only (offline) and runs its
# differential self-test (library functions on pinned-symbolic vs concrete
# arguments). The self-test result is informational: it never fails the setup.
set -e
cd "$(dirname "$0")"
export GOFLAGS=-mod=mod GOPROXY=off GOSUMDB=off GOTOOLCHAIN=local
mkdir -p bin evidence
(cd engine && go build -o ../bin/gosym ./cmd/gosym)
if ./check selftest quick >/tmp/vx-selftest.log 2>&1; then
  echo "engine self-test: ok ($(tail -1 /tmp/vx-selftest.log))"
else
  echo "engine self-test: NOT ok (see /tmp/vx-selftest.log)"
fi
echo "setup ok"
